// C18 — connection goroutines are free of data races.
//
// The proof (coq/Props/C18.v) is about the annotated model coq/Model/Race.v.  Two ties to /repo, both
// run on every check:
//
//	(i)  access sites (sites.go): every selector on a field of connection / packageParse /
//	     packageComplete / sessionManager / session in package service, with its enclosing function and
//	     read/write role, is sent to the oracle (`site f T field r|w`), which answers "modelled" iff the
//	     model's tables place the function in a goroutine class and the field in a location class AND
//	     the model performs such an access; every static call / go statement between functions of the
//	     package must stay inside / start an allowed goroutine class (`call`, `spawn`).  A field touched
//	     from a function the model does not annotate breaks the correspondence.
//	(ii) runtime search (scen.go): this command is rebuilt with -race and the delay overlay
//	     (lib/overlay_conc.go) and runs join / duplicate-key / message / command / timeout / teardown
//	     scenarios on many connections; a detector report whose accessing frame is in package service,
//	     attachment or protocol is a violation, the report is the replay.
package main

import (
	"encoding/json"
	"fmt"
	"os"
	"path/filepath"
	"regexp"
	"sort"
	"strconv"
	"strings"
	"time"

	. "verifh/lib"
)

const required = "no memory location is accessed by two goroutines without synchronisation when at least one access is a write"

// ---------------------------------------------------------------- race reports

type report struct {
	Text  string
	Tops  []string // the accessing frame of each of the two accesses (first non-runtime frame)
	InLib bool     // one of the accessing frames is in the library under check
}

var frameRe = regexp.MustCompile(`(?m)^  ([^\s(][^\n]*)\(\)\n      ([^\n]+)$`)

// parseReports splits a race-detector log into reports.
func parseReports(log string) []report {
	var out []report
	for _, blk := range strings.Split(log, "==================") {
		if !strings.Contains(blk, "WARNING: DATA RACE") {
			continue
		}
		r := report{Text: strings.TrimSpace(blk)}
		// sections: "Write at ... by goroutine N:" / "Previous read at ... by goroutine M:" then frames
		secs := regexp.MustCompile(`(?m)^(Read|Write|Previous read|Previous write|Atomic[^\n]*) at [^\n]*:$`).FindAllStringIndex(blk, -1)
		for i, sidx := range secs {
			end := len(blk)
			if i+1 < len(secs) {
				end = secs[i+1][0]
			}
			sec := blk[sidx[1]:end]
			if j := strings.Index(sec, "\n\n"); j >= 0 {
				sec = sec[:j+1]
			}
			top := ""
			for _, m := range frameRe.FindAllStringSubmatch(sec, -1) {
				fn := m[1]
				if strings.HasPrefix(fn, "runtime.") || strings.HasPrefix(fn, "internal/") || strings.HasPrefix(fn, "sync.") || strings.HasPrefix(fn, "sync/atomic.") {
					continue
				}
				top = fn + " " + m[2]
				break
			}
			r.Tops = append(r.Tops, top)
			if strings.Contains(top, "go-jt808/service.") || strings.Contains(top, "go-jt808/attachment.") ||
				strings.Contains(top, "go-jt808/protocol/") || strings.Contains(top, "go-jt808/shared/") {
				r.InLib = true
			}
		}
		out = append(out, r)
	}
	return out
}

func readRaceLogs(prefix string) string {
	files, _ := filepath.Glob(prefix + ".*")
	sort.Strings(files)
	var sb strings.Builder
	for _, f := range files {
		b, _ := os.ReadFile(f)
		sb.Write(b)
	}
	return sb.String()
}

// ---------------------------------------------------------------- the race child

type raceRun struct {
	bin    string
	out    string
	sites  []DelaySite
	ch     *Child
	logpfx string
	seen   int
}

func buildRace(out string) (*raceRun, error) {
	bin, sites, err := BuildChildLines("C18", out, "c18race", true)
	if err != nil {
		return nil, err
	}
	return &raceRun{bin: bin, out: out, sites: sites}, nil
}

func (r *raceRun) start(delaySeed int64, us, p int) error {
	r.logpfx = filepath.Join(r.out, fmt.Sprintf("race-%d-%d", delaySeed, time.Now().UnixNano()))
	ch, err := StartChild(r.bin, []string{
		"GORACE=log_path=" + r.logpfx + " halt_on_error=0 history_size=2",
		fmt.Sprintf("VERIF_DELAY_SEED=%d", delaySeed), fmt.Sprintf("VERIF_DELAY_US=%d", us), fmt.Sprintf("VERIF_DELAY_P=%d", p),
	}, 1<<16)
	r.ch, r.seen = ch, 0
	return err
}

// newReports: the reports written since the last call.
func (r *raceRun) newReports() []report {
	all := parseReports(readRaceLogs(r.logpfx))
	if len(all) <= r.seen {
		return nil
	}
	nw := all[r.seen:]
	r.seen = len(all)
	return nw
}

func panicHead(stderr string) string {
	for _, mark := range []string{"panic:", "fatal error:"} {
		if i := strings.Index(stderr, mark); i >= 0 {
			return Trunc(strings.Join(strings.Fields(stderr[i:]), " "), 1200)
		}
	}
	return Trunc(strings.Join(strings.Fields(stderr), " "), 1200)
}

// ---------------------------------------------------------------- ops

// racescen in a binary without the detector (bin/check --replay): build the detector child and run the
// scenario up to 24 times with different delay seeds and regimes.
func replayScen(a []string) string {
	if raceEnabled {
		return scenJSON(a)
	}
	return replayGeneric("racescen " + strings.Join(a, " "))
}

// replayGeneric: rebuild the detector child and run one request up to 24 times under different delay seeds.
func replayGeneric(req string) string {
	parent := filepath.Join(HarnessSrcDir(), "..", ".cache") // /verif/.cache (or the cache dir of a scratch build)
	if fi, err := os.Stat(parent); err != nil || !fi.IsDir() {
		parent = filepath.Join(HarnessSrcDir(), "..")
	}
	dir, err := os.MkdirTemp(parent, "c18-replay-")
	if err != nil {
		return "cannot create a build directory: " + err.Error()
	}
	defer os.RemoveAll(dir)
	rr, err := buildRace(dir)
	if err != nil {
		return "cannot build the race child: " + err.Error()
	}
	for k := int64(1); k <= 24; k++ {
		if err := rr.start(k, []int{0, 60, 300}[k%3], 30); err != nil {
			return "cannot start the race child: " + err.Error()
		}
		ans, st := rr.ch.Ask(req, 120*time.Second)
		rr.ch.Stop(20 * time.Second)
		for _, rep := range rr.newReports() {
			if rep.InLib {
				return fmt.Sprintf("run %d: %s", k, strings.Join(strings.Fields(rep.Text), " "))
			}
		}
		if st != "ok" {
			return fmt.Sprintf("run %d: child %s: %s", k, st, panicHead(rr.ch.Stderr()))
		}
		_ = ans
	}
	return "no race reported in 24 runs of the scenario (a schedule is not reproduced deterministically; the recorded report is the evidence)"
}

func main() {
	RegisterOp("racescen", replayScen) // racescen <seed> <nconn> <ncallers> <ms>
	RegisterOp("racenf", func(a []string) string { // racenf <seed> <nconn> <ms>: sub-package filter off, detector child only
		if !raceEnabled {
			return replayGeneric("racenf " + strings.Join(a, " "))
		}
		seed, _ := strconv.ParseInt(a[0], 10, 64)
		n, _ := strconv.Atoi(a[1])
		msn, _ := strconv.Atoi(a[2])
		return runNoFilter(seed, n, msn)
	})
	RegisterOp("racedef", func(a []string) string { // racedef <seed> <nconn> <ms> <variant 0|1>: default options, detector child only
		if !raceEnabled {
			return replayGeneric("racedef " + strings.Join(a, " "))
		}
		seed, _ := strconv.ParseInt(a[0], 10, 64)
		n, _ := strconv.Atoi(a[1])
		msn, _ := strconv.Atoi(a[2])
		v, _ := strconv.Atoi(a[3])
		return runDefault(seed, n, msn, v)
	})
	RegisterOp("racew", func(a []string) string { // racew <seed> <slow 0|1>: the C12/C13 scenario kinds, detector child only
		if !raceEnabled {
			return "n/a outside the detector child"
		}
		seed, _ := strconv.ParseInt(a[0], 10, 64)
		return runWKinds(seed, len(a) > 1 && a[1] == "1")
	})
	RegisterOp("sites", func(a []string) string {
		ss, es, cs, ds, err := listSites(ServiceDir())
		if err != nil {
			return "error " + err.Error()
		}
		var l []string
		for _, s := range ss {
			l = append(l, s.key())
		}
		for _, e := range es {
			l = append(l, e.key())
		}
		for _, c := range cs {
			l = append(l, c.key())
		}
		for _, d := range ds {
			l = append(l, "decl "+d.Struct+" "+d.Field+" "+d.Type)
		}
		return strings.Join(l, " | ")
	})
	if ChildMode() {
		ServeOps()
		return
	}
	Main("C18", c18)
}

func c18(c *Ctx) {
	c.Rule = "tie (i): the call graph, then one request per distinct (function, struct, field, read/write) selector site of package service on the statically placed structs, every static call / go / closure-sent-on-a-channel edge between its functions and every variable captured by a closure that runs in another goroutine (exhaustive over the current source); the model side derives the goroutine class(es) reaching each function from its root table and judges each site by (class, location, role); tie (ii): scenarios of 6..20 terminals (first messages, duplicate keys, heartbeats, locations, authentication, sub-packaged and unsupported messages, answers / missing answers / duplicate answers, FIN / close / RST) x 2..6 callers (7 command types, with and without timer, 1..100 ms timeouts) on one server built with -race and seeded delays before every channel operation of connection.go; every 8th round a scenario on a server with DEFAULT options (the library's own eventer / handlers / key func, alternately only WithKeyFunc: duplicate-key joins, invalid keys, parallel disconnects), every 8th round a scenario on a second server with the sub-package filter off (WithHasSubcontract(false), 4..12 terminals sending sub-packaged 0x0200/0x0801 transfers, an eventer that reads msg.Header in OnReadExecutionEvent), and every 8th round additionally the 22 (thorough: all 26) command / teardown scenario kinds of C12/C13 (lib/conc_writer.go GenW/RunW) run in parallel on the same server; non-trivial = a scenario in which commands were answered AND timed out or were cut by a teardown; distinct = distinct scenario seeds"
	rng := c.Rng
	// ---- tie (i): access sites
	sites, edges, caps, decls, err := listSites(ServiceDir())
	if err != nil {
		c.Case("sites-unavailable "+strings.Join(strings.Fields(err.Error()), "_"), "listed", true)
	}
	// one request carries the whole picture: the model side computes which goroutine class(es) reach every
	// function (roots by its table, static calls stay in the caller's goroutine) and judges every site by
	// (class, location, role) - so a function the model has never heard of (extract method) is fine as long
	// as one class reaches it and that class may make the access
	// the graph first (the oracle keeps it), then one short request per site / go / sent closure / capture
	items := []string{}
	for _, e := range edges {
		items = append(items, "e:"+e.Kind+":"+e.Caller+":"+e.Callee)
		c.Count("edge:" + e.Kind)
	}
	for _, d := range decls { // the fields as declared now: lets the model side recognise a renamed field by its type
		items = append(items, "f:"+d.Struct+":"+d.Field+":"+strings.ReplaceAll(d.Type, ":", ";"))
	}
	for _, s := range sites { // all sites: a renamed field is recognised by how it is used
		items = append(items, "s:"+s.Func+":"+s.Type+":"+s.Field+":"+s.Role)
	}
	c.Case("graph "+strings.Join(items, " "), "graph-loaded", true)
	for _, e := range edges {
		if e.Kind != "call" {
			c.Case(e.Kind+" "+e.Caller+" "+e.Callee, "ok", true)
		}
	}
	for _, s := range sites {
		c.Case("site "+s.key(), "modelled", true)
		c.Count("site:" + s.Type)
	}
	for _, cp := range caps {
		c.Case(cp.key(), "ok", true)
		c.Count("capture")
	}
	c.Extra["captures"] = len(caps)
	if g, ch, sy, err := attachShape(filepath.Join(ServiceDir(), "..", "attachment")); err == nil {
		c.Case(fmt.Sprintf("attach-shape go=%d chan=%d sync=%d", g, ch, sy), "one-goroutine-per-connection", true)
	} else {
		c.Case("attach-shape unavailable", "one-goroutine-per-connection", true)
	}
	c.Extra["sites"] = len(sites)
	c.Extra["edges"] = len(edges)
	// ---- tie (ii): the detector
	outAbs, _ := filepath.Abs(c.Out)
	t0 := time.Now()
	rr, err := buildRace(outAbs)
	if err != nil {
		// surfaces as a broken tie: the oracle does not know this request
		c.Case("race-build-failed "+strings.Join(strings.Fields(Trunc(err.Error(), 300)), "_"), "built", true)
		return
	}
	c.Extra["race_build_s"] = int(time.Since(t0).Seconds())
	c.Extra["delay_sites"] = len(rr.sites)
	nscen, ms := 80, 220
	if !c.Quick() {
		nscen, ms = 1500, 300
	}
	tot := map[string]int64{}
	fatal := 0
	seenSig := map[string]bool{}
	perChild := 12
	for n := 0; n < nscen && fatal < 3; n++ {
		if rr.ch == nil || rr.ch.Dead || n%perChild == 0 {
			if rr.ch != nil {
				rr.ch.Stop(20 * time.Second)
				rr.collect(c, "teardown of the child", seenSig)
			}
			// alternate delay regimes: yields only / short sleeps / longer sleeps
			us := []int{0, 60, 300}[(n/perChild)%3]
			if err := rr.start(c.Seed*1000+int64(n), us, 30); err != nil {
				panic(err)
			}
		}
		if n%8 == 4 { // the command / teardown scenario kinds of C12/C13 (lib/conc_writer.go), all kinds in parallel
			wreq := fmt.Sprintf("racew %d %d", rng.Int63n(1<<30), map[bool]int{true: 0, false: 1}[c.Quick()])
			tw := time.Now()
			wans, wst := rr.ch.Ask(wreq, 240*time.Second)
			tot["ms_in_racew"] += time.Since(tw).Milliseconds()
			rr.collect(c, wreq, seenSig)
			if wst == "ok" {
				var ws struct {
					WKinds, WViol int
					Durs          string
				}
				json.Unmarshal([]byte(wans), &ws)
				c.Extra["wkinds_last_durations_ms"] = ws.Durs
				tot["wkinds_run"] += int64(ws.WKinds)
				tot["wkinds_verdicts_of_their_own_oracle"] += int64(ws.WViol)
				c.Eval(wreq, true)
			} else if wst == "crash" {
				fatal++
				c.Violate(Violation{Signature: "C18/crash", What: "the server under the race detector died", Input: wreq,
					Observed: panicHead(rr.ch.Stderr()), Required: required + "; and no scenario crashes the server"})
				continue
			} else if wst == "hang" { // not judged (slowness is not a race), but never silent: bin/check prints a NOTE
				c.Count("racew:child-hang")
				rr.ch.Kill()
				continue
			}
		}
		if n%8 == 2 { // the server with DEFAULT options (the library's own eventer, handlers, key func; odd rounds: only WithKeyFunc)
			dreq := fmt.Sprintf("racedef %d %d %d %d", rng.Int63n(1<<30), 6+rng.Intn(9), ms, (n/8)%2)
			dans, dst := rr.ch.Ask(dreq, 120*time.Second)
			rr.collect(c, dreq, seenSig)
			if dst == "ok" && !strings.Contains(dans, `"DEF":"ok"`) {
				c.Count("racedef:setup-failed")
			} else if dst == "ok" {
				tot["default_option_rounds"]++
				c.Eval(dreq, true)
			} else if dst == "hang" {
				c.Count("racedef:child-hang")
				rr.ch.Kill()
				continue
			} else if dst == "crash" {
				fatal++
				c.Violate(Violation{Signature: "C18/crash", What: "the server under the race detector died", Input: dreq,
					Observed: panicHead(rr.ch.Stderr()), Required: required + "; and no scenario crashes the server"})
				continue
			}
		}
		if n%8 == 6 { // the sub-package filter switched off (a second server in the child), handlers reading the header
			nreq := fmt.Sprintf("racenf %d %d %d", rng.Int63n(1<<30), 4+rng.Intn(9), ms)
			nans, nst := rr.ch.Ask(nreq, 120*time.Second)
			rr.collect(c, nreq, seenSig)
			if nst == "ok" && !strings.Contains(nans, `"NF":"ok"`) {
				c.Count("racenf:setup-failed") // the filter-off server did not start: the round explored nothing
			} else if nst == "ok" {
				tot["filter_off_rounds"]++
				c.Eval(nreq, true)
			} else if nst == "hang" {
				c.Count("racenf:child-hang")
				rr.ch.Kill()
				continue
			} else if nst == "crash" {
				fatal++
				c.Violate(Violation{Signature: "C18/crash", What: "the server under the race detector died", Input: nreq,
					Observed: panicHead(rr.ch.Stderr()), Required: required + "; and no scenario crashes the server"})
				continue
			}
		}
		req := fmt.Sprintf("racescen %d %d %d %d", rng.Int63n(1<<40), 6+rng.Intn(15), 2+rng.Intn(5), ms)
		ts := time.Now()
		ans, st := rr.ch.Ask(req, 180*time.Second)
		tot["ms_in_racescen"] += time.Since(ts).Milliseconds()
		nrep := rr.collect(c, req, seenSig)
		switch st {
		case "ok":
			var s scenStats
			json.Unmarshal([]byte(ans), &s)
			tot["conns"] += int64(s.Conns)
			tot["frames"] += int64(s.Frames)
			tot["cmds"] += int64(s.Cmds)
			tot["resp"] += int64(s.Resp)
			tot["timeout"] += int64(s.Timeout)
			tot["wfail"] += int64(s.WFail)
			tot["noexist"] += int64(s.NoExist)
			tot["hang"] += int64(s.Hang)
			tot["other"] += int64(s.Other)
			tot["joins"] += s.Joins
			tot["refused"] += s.Refused
			tot["leaves"] += s.Leaves
			tot["unanswered"] += s.Unanswered
			tot["probes"] = s.Probes
			c.Eval(req, s.Resp > 0 && (s.Timeout > 0 || s.NoExist > 0 || s.WFail > 0))
			c.Count("scen:conns=" + strconv.Itoa(s.Conns/5*5) + "+")
			if s.Hang > 0 {
				c.Count("scen:with-hanging-call")
			}
		case "crash":
			fatal++
			c.Violate(Violation{Signature: "C18/crash", What: "the server under the race detector died", Input: req,
				Observed: panicHead(rr.ch.Stderr()), Required: required + "; and no scenario crashes the server"})
		case "hang":
			fatal++
			rr.ch.Kill()
			c.Count("racescen:child-hang")
		}
		_ = nrep
	}
	if rr.ch != nil {
		rr.ch.Stop(20 * time.Second)
		rr.collect(c, "teardown of the child", seenSig)
	}
	for k, v := range tot {
		c.Extra["total_"+k] = v
	}
	c.Extra["wkinds_available"] = len(WKinds)
}

// collect turns the new detector reports into violations (library frames) or counts (harness-only frames).
func (r *raceRun) collect(c *Ctx, req string, seenSig map[string]bool) int {
	n := 0
	for _, rep := range r.newReports() {
		n++
		if !rep.InLib {
			c.Count("race-report:harness-only")
			if _, ok := c.Extra["harness_only_report"]; !ok {
				c.Extra["harness_only_report"] = Trunc(strings.Join(strings.Fields(rep.Text), " "), 1500)
			}
			continue
		}
		sig := "C18/race"
		tops := append([]string{}, rep.Tops...)
		sort.Strings(tops)
		for _, t := range tops {
			if i := strings.Index(t, "go-jt808/"); i >= 0 {
				f := strings.Fields(t[i+9:])[0]
				sig += ":" + strings.Map(func(r rune) rune {
					if r == '(' || r == ')' || r == '*' {
						return -1
					}
					return r
				}, f)
			}
		}
		if seenSig[sig] {
			continue
		}
		seenSig[sig] = true
		c.Violate(Violation{Signature: sig, What: "data race reported by the Go race detector in the library under check",
			Input: req, Observed: Trunc(rep.Text, 3500), Required: required})
	}
	return n
}

package main

// C19 — stored attachments stay inside the terminal's directory.
//
// ops (implementation side; the model side is oracle/drv_c19.ml):
//   c19 <dialect> <segment-hex>...                      a whole session (0x1210, chunks, ...) then close
//   c19abs <dialect> <v2019 0|1> <bcd-hex> <name-hex>...  names only; the token @ROOT@ inside a name is replaced
//                                                       by the sandbox root (absolute names that stay in the
//                                                       sandbox); a plain item "zz" is announced as well
// Both run one real attachment connection (connection.run via VerifRun over net.Pipe) with the REAL default
// file handler in a fresh sandbox:  <root>/l1/l2/l3/l4/l5/l6/w  is the working directory, every level holds a
// canary file.  The answer lists every file-system entry that appeared below <root> (relative to the working
// directory; files with length and hash of their content), file.log excepted.

import (
	"bytes"
	"fmt"
	"os"
	"path/filepath"
	"runtime"
	"sort"
	"strings"

	. "verifh/lib"

	"github.com/cuteLittleDevil/go-jt808/attachment"
)

const depth = 6

type sandbox struct {
	root, w  string
	canaries []string
	before   map[string]bool
	content  map[string][]byte
}

func newSandbox() *sandbox {
	root, err := os.MkdirTemp("", "verif-c19-")
	if err != nil {
		panic(err)
	}
	root, _ = filepath.EvalSymlinks(root)
	s := &sandbox{root: root, before: map[string]bool{}, content: map[string][]byte{}}
	dir := root
	for i := 0; i <= depth; i++ {
		s.canaries = append(s.canaries, filepath.Join(dir, "canary"))
		if i < depth {
			dir = filepath.Join(dir, fmt.Sprintf("l%d", i+1))
		} else {
			dir = filepath.Join(dir, "w")
		}
	}
	s.w = dir
	if err := os.MkdirAll(s.w, 0o755); err != nil {
		panic(err)
	}
	s.canaries = append(s.canaries, filepath.Join(s.w, "canary"))
	for _, c := range s.canaries {
		os.WriteFile(c, []byte("canary"), 0o644)
	}
	filepath.Walk(root, func(p string, _ os.FileInfo, _ error) error { s.before[p] = true; return nil })
	return s
}

// created: entries that appeared below root, relative to w; canariesOK: every canary still intact
func (s *sandbox) inspect() (created []string, canariesOK bool) {
	filepath.Walk(s.root, func(p string, _ os.FileInfo, _ error) error {
		if !s.before[p] && p != filepath.Join(s.w, "file.log") {
			rel, _ := filepath.Rel(s.w, p)
			created = append(created, rel)
			if fi, err := os.Lstat(p); err == nil && fi.Mode().IsRegular() {
				b, _ := os.ReadFile(p)
				s.content[rel] = b
			}
		}
		return nil
	})
	sort.Strings(created)
	canariesOK = true
	for _, c := range s.canaries {
		b, err := os.ReadFile(c)
		if err != nil || string(b) != "canary" {
			canariesOK = false
		}
	}
	return
}

func (s *sandbox) close() { os.RemoveAll(s.root) }

type outcome struct {
	created    []string
	canariesOK bool
	phone      string
	panicked   string
	stages     []int
	content    map[string][]byte
}

// session: run the segments produced by mk (which may use the sandbox root) with the default file handler,
// cwd = sandbox w
func session(d int, mk func(root string) [][]byte) outcome {
	s := newSandbox()
	defer s.close()
	old, _ := os.Getwd()
	if err := os.Chdir(s.w); err != nil {
		panic(err)
	}
	defer os.Chdir(old)
	res := AttRun(d, mk(s.root), attachment.VerifNewDefaultFileEvent())
	o := outcome{panicked: res.Panic}
	for _, e := range res.Events {
		o.stages = append(o.stages, e.Stage)
	}
	o.created, o.canariesOK = s.inspect()
	o.content = s.content
	return o
}

func absSegs(d int, v2019 bool, bcd []byte, names [][]byte) func(root string) [][]byte {
	return func(root string) [][]byte {
		var items []AttItem
		for _, n := range names {
			n = bytes.ReplaceAll(n, []byte("@ROOT@"), []byte(root))
			if len(n) > 255 {
				n = n[:255]
			}
			items = append(items, AttItem{Name: n, Size: 3})
		}
		items = append(items, AttItem{Name: []byte("zz"), Size: 3})
		return [][]byte{Frame808(0x1210, v2019, bcd, 7, Body1210(d, []byte("TERMINAL-ID"), 0, -1, items))}
	}
}

func phoneOf(bcd []byte) string { // the standard's reading: BCD digits, leading zeros dropped (all-zero kept)
	sx := fmt.Sprintf("%x", bcd)
	t := strings.TrimLeft(sx, "0")
	if t == "" {
		return sx
	}
	return t
}

func fnv32(b []byte) uint32 {
	h := uint32(2166136261)
	for _, x := range b {
		h ^= uint32(x)
		h *= 16777619
	}
	return h
}

func canon(o outcome) string {
	if o.panicked != "" {
		return "panic"
	}
	var hx []string
	for _, c := range o.created {
		e := Hx([]byte(c))
		if b, ok := o.content[c]; ok {
			e += fmt.Sprintf(":%d/%08x", len(b), fnv32(b))
		}
		hx = append(hx, e)
	}
	if len(hx) == 0 {
		hx = []string{"-"}
	}
	return "ok created=" + strings.Join(hx, ",")
}

func opC19(a []string) string {
	var segs [][]byte
	for _, h := range a[1:] {
		segs = append(segs, Unhx(h))
	}
	return canon(session(atoi(a[0]), func(string) [][]byte { return segs }))
}

func opC19abs(a []string) string {
	var names [][]byte
	for _, h := range a[3:] {
		names = append(names, Unhx(h))
	}
	return canon(session(atoi(a[0]), absSegs(atoi(a[0]), a[1] == "1", Unhx(a[2]), names)))
}

func atoi(s string) int {
	n := 0
	fmt.Sscanf(s, "%d", &n)
	return n
}

func main() {
	RegisterOp("c19", opC19)
	RegisterOp("c19abs", opC19abs)
	Main("C19", c19)
}

func c19(c *Ctx) {
	c.Rule = "sessions against the real default file handler in a fresh sandbox directory tree: every name of length <= 3 over {'.','/','a',NUL,'\\'} (exhaustive), '..' at every component position, absolute names (inside the sandbox or below a directory that does not exist), names that resolve to canary files outside the terminal directory, random names up to 255 bytes over arbitrary bytes, both header versions, five dialects, several names per session. A session is non-trivial when at least one name is not a plain component (contains '/', is '', '.' or '..'); distinct = distinct request lines"
	rng := c.Rng
	nsess := 0
	run := func(d int, v2019 bool, bcd []byte, names [][]byte, what string) {
		nontriv := false
		abs := false
		for _, n := range names {
			if len(n) == 0 || string(n) == "." || string(n) == ".." || bytes.ContainsAny(n, "/") {
				nontriv = true
			}
			if bytes.Contains(n, []byte("@ROOT@")) {
				abs = true
			}
		}
		var req string
		var o outcome
		sent := map[string][]byte{} // plain names whose content was sent as a chunk
		partial := map[string]bool{}
		_ = partial
		if abs {
			req = fmt.Sprintf("c19abs %d %d %s", d, b2i(v2019), Hx(bcd))
			for _, n := range names {
				req += " " + Hx(n)
			}
			o = session(d, absSegs(d, v2019, bcd, names))
		} else {
			var items []AttItem
			for _, n := range names {
				items = append(items, AttItem{Name: n, Size: 3})
			}
			segs := [][]byte{Frame808(0x1210, v2019, bcd, 7, Body1210(d, []byte("TERMINAL-ID"), 0, -1, items))}
			for _, n := range names { // the content of names a chunk header can carry
				if (len(n) <= 50 || d == AttHLJ) && len(n) > 0 && n[0] != 0 && n[len(n)-1] != 0 && rng.Intn(3) > 0 {
					if _, dup := sent[string(n)]; !dup && !partial[string(n)] {
						data := []byte{byte(rng.Intn(256)), byte(rng.Intn(256)), byte(rng.Intn(256))}
						if rng.Intn(3) == 0 {
							// a PARTIAL upload: some but not all announced bytes arrive before the connection ends
							// (whatever the handler does with incomplete files, it must do it inside the directory)
							segs = append(segs, Chunk(d, n, 0, data[:1+rng.Intn(2)]))
							sent[string(n)] = nil
							delete(sent, string(n))
							partial[string(n)] = true
						} else {
							sent[string(n)] = data
							segs = append(segs, Chunk(d, n, 0, data))
						}
					}
				}
			}
			// a SECOND 0x1210 on the same connection that does not list the earlier names (records accumulate over
			// the announcements of a connection: whatever was decided about a name when it was announced must still
			// hold when the connection ends)
			if rng.Intn(3) == 0 {
				second := []AttItem{{Name: []byte(fmt.Sprintf("second%d.jpg", rng.Intn(10))), Size: 3}}
				segs = append(segs, Frame808(0x1210, v2019, bcd, 9, Body1210(d, []byte("TERMINAL-ID"), 0, -1, second)))
				c.Count("second-1210")
			}
			// file names also travel in 0x1211 (file information) and 0x1212 (upload complete): announce hostile and
			// plain names there too (names known from the 0x1210 and names the connection never announced)
			if rng.Intn(3) == 0 {
				extra := [][]byte{[]byte("../x1211"), []byte("/abs1212"), []byte("..")}
				for k, n := range append(append([][]byte{}, names...), extra...) {
					if len(n) > 255 || k > 5 {
						continue
					}
					segs = append(segs, Frame808(0x1211, v2019, bcd, uint16(20+2*k), Body1211(n, 0, 3)))
					segs = append(segs, Frame808(0x1212, v2019, bcd, uint16(21+2*k), Body1211(n, 0, 3)))
				}
			}
			req = "c19" + AttRequest(d, segs)[3:]
			o = session(d, func(string) [][]byte { return segs })
		}
		c.Case(req, canon(o), nontriv)
		c.Count(what)
		nsess++
		if nsess%200 == 0 {
			runtime.GC() // the handler never closes its file.log descriptor: let finalizers do it
		}
		if o.panicked != "" {
			c.Violate(Violation{Signature: "C19/panic", What: "the default file handler panicked", Input: req, Observed: o.panicked, Required: "no panic"})
			return
		}
		phone := phoneOf(bcd)
		for _, cr := range o.created {
			if cr != phone && !strings.HasPrefix(cr, phone+string(os.PathSeparator)) {
				c.Violate(Violation{Signature: "C19/escape/" + what, What: "a file was created outside <cwd>/<phone>/",
					Input: req, Observed: "created " + fmt.Sprintf("%q", o.created), Required: "every created entry lies inside <cwd>/" + phone + "/"})
				break
			}
		}
		if !o.canariesOK {
			c.Violate(Violation{Signature: "C19/overwrite/" + what, What: "an existing file outside the terminal directory was modified",
				Input: req, Observed: "a canary file changed", Required: "files outside <cwd>/<phone>/ untouched"})
		}
		// plain names must actually be stored (the filter rejects, it does not drop everything)
		for _, n := range names {
			plain := len(n) > 0 && string(n) != "." && string(n) != ".." && !bytes.ContainsAny(n, "/\\\x00") && !bytes.Contains(n, []byte("@ROOT@"))
			if plain {
				found := false
				for _, cr := range o.created {
					if cr == filepath.Join(phone, string(n)) {
						found = true
					}
				}
				if data, ok := sent[string(n)]; ok && found && !bytes.Equal(o.content[filepath.Join(phone, string(n))], data) {
					c.Violate(Violation{Signature: "C19/content", What: "a stored file does not hold the uploaded bytes",
						Input: req, Observed: fmt.Sprintf("%x", o.content[filepath.Join(phone, string(n))]), Required: fmt.Sprintf("%x", data)})
				}
				if !found {
					c.Violate(Violation{Signature: "C19/not-stored", What: "a plain file name was not stored in the terminal directory",
						Input: req, Observed: fmt.Sprintf("created %q", o.created), Required: filepath.Join(phone, string(n))})
				}
			}
		}
	}
	phones := [][]byte{{0x01, 0x38, 0x00, 0x13, 0x80, 0x00}, {0, 0, 0, 0, 0, 0}, {0xab, 0xcd, 0xef, 0x12, 0x34, 0x56}, {0, 0, 0, 0, 0, 1}}
	// (0) the session of Props/C19_session.v C19_run_example2, byte for byte (its reads are these three writes): two
	// announced files, the one whose name leaves the directory is complete, the plain one arrives in two chunks; the
	// model's evaluated answer (exactly ./13800138000/a.jpg = WXYZ) is compared with the real handler's directory
	{
		good, evil := []byte("a.jpg"), []byte("../b")
		f1 := Frame808(0x1210, false, phones[0], 7, Body1210(1, []byte("TERMINAL-ID"), 0, -1, []AttItem{{Name: good, Size: 4}, {Name: evil, Size: 2}}))
		c1, c2, c3 := Chunk(1, good, 0, []byte("WX")), Chunk(1, evil, 0, []byte("!!")), Chunk(1, good, 2, []byte("YZ"))
		f2 := Frame808(0x1212, false, phones[0], 8, Body1211(good, 0, 4))
		all := append(append(append(append(append([]byte{}, f1...), c1...), c2...), c3...), f2...)
		cut1, cut2 := len(f1)+10, len(f1)+len(c1)+len(c2)+3
		segs := [][]byte{all[:cut1], all[cut1:cut2], all[cut2:]}
		req := "c19" + AttRequest(1, segs)[3:]
		o := session(1, func(string) [][]byte { return segs })
		c.Case(req, canon(o), true)
		c.Count("example2")
		want := []string{"13800138000", filepath.Join("13800138000", "a.jpg")}
		if o.panicked != "" || fmt.Sprint(o.created) != fmt.Sprint(want) || string(o.content[want[1]]) != "WXYZ" {
			c.Violate(Violation{Signature: "C19/example2", What: "the session of C19_run_example2 on the real handler", Input: req,
				Observed: fmt.Sprintf("panic=%q created=%q content=%q", o.panicked, o.created, o.content[want[1]]),
				Required: fmt.Sprintf("created=%q content=\"WXYZ\"", want)})
		}
	}
	phone19 := []byte{0, 0, 0, 0, 0x01, 0x38, 0x00, 0x13, 0x80, 0x00}
	// (1) exhaustive: every name of length <= 3 over the alphabet, one name per session, and all of a
	// length class in one session (records are a map: many names at once)
	alpha := []byte{'.', '/', 'a', 0, '\\'}
	var small [][]byte
	small = append(small, []byte{})
	for _, a := range alpha {
		small = append(small, []byte{a})
		for _, b := range alpha {
			small = append(small, []byte{a, b})
			for _, e := range alpha {
				small = append(small, []byte{a, b, e})
			}
		}
	}
	for i, n := range small {
		run(AttDialects[i%5], false, phones[0], [][]byte{n}, "exhaustive-small")
	}
	for i := 0; i < len(small); i += 20 {
		run(1, false, phones[2], small[i:min(i+20, len(small))], "exhaustive-small-batch")
	}
	c.Extra["exhaustive_names_len<=3_over_5_chars"] = len(small)
	c.Exhaustive = true
	// (2) '..' at every component position, to every canary level
	for k := 1; k <= depth+1; k++ {
		up := strings.Repeat("../", k)
		for _, n := range []string{up + "x", up + "canary", "a/" + up + "../x", up[:len(up)-1], "./" + up + "x", up + "w/x", "x/" + up, "a/../../x"} {
			run(1+k%5, k%2 == 0, map[bool][]byte{false: phones[0], true: phone19}[k%2 == 0], [][]byte{[]byte(n)}, "dotdot")
		}
	}
	// far more '..' than the sandbox is deep: below a directory that does not exist
	run(1, false, phones[0], [][]byte{[]byte(strings.Repeat("../", 40) + "verif_no_such_dir_c19/x")}, "dotdot-deep")
	// (3) absolute names
	for _, n := range []string{"@ROOT@/abs", "@ROOT@/canary", "@ROOT@/l1/canary", "/verif_no_such_dir_c19/x", "//verif_no_such_dir_c19/x", "@ROOT@/l1/l2/l3/l4/l5/l6/w/abs2", "/"} {
		run(1, false, phones[0], [][]byte{[]byte(n)}, "absolute")
		run(2, true, phone19, [][]byte{[]byte(n), []byte("ok.jpg")}, "absolute")
	}
	// (4) random names
	nrand := 400
	if !c.Quick() {
		nrand = 12000
	}
	for i := 0; i < nrand; i++ {
		d := AttDialects[rng.Intn(5)]
		v19 := rng.Intn(2) == 0
		bcd := phones[rng.Intn(len(phones))]
		if rng.Intn(3) == 0 {
			bcd = make([]byte, 6)
			rng.Read(bcd)
		}
		if v19 {
			bcd = append(make([]byte, 4), bcd...)
		}
		k := 1 + rng.Intn(4)
		var names [][]byte
		budget := 800
		for j := 0; j < k; j++ {
			var n []byte
			switch rng.Intn(6) {
			case 0: // arbitrary bytes
				n = make([]byte, rng.Intn(60))
				rng.Read(n)
			case 1: // arbitrary bytes, long
				n = make([]byte, 200+rng.Intn(56))
				rng.Read(n)
			case 2: // path-like over a small alphabet, never more than depth '..'
				parts := []string{}
				ups := 0
				for p := 0; p < 1+rng.Intn(6); p++ {
					s := []string{"..", ".", "", "a", "b.jpg", "w", "canary", "l6"}[rng.Intn(8)]
					if s == ".." {
						ups++
						if ups > depth {
							s = "a"
						}
					}
					parts = append(parts, s)
				}
				n = []byte(strings.Join(parts, "/"))
			case 3: // plain names
				n = []byte(fmt.Sprintf("f%d_%d.jpg", i, j))
			case 4: // plain with odd bytes
				n = []byte{byte(1 + rng.Intn(255)), byte(1 + rng.Intn(255)), byte(1 + rng.Intn(255))}
			default: // 255 bytes plain
				n = bytes.Repeat([]byte{byte('a' + rng.Intn(26))}, 255)
			}
			// a random name must not be an absolute path outside the sandbox, nor climb out of it
			if len(n) > 0 && n[0] == '/' {
				n = append([]byte("@ROOT@"), n...)
			}
			if bytes.Count(n, []byte("..")) > depth {
				n = bytes.ReplaceAll(n, []byte(".."), []byte("__"))
			}
			if budget-len(n)-5 < 0 {
				break
			}
			budget -= len(n) + 5
			names = append(names, n)
		}
		run(d, v19, bcd, names, "random")
	}
	c.Extra["sessions"] = nsess
}

func b2i(b bool) int {
	if b {
		return 1
	}
	return 0
}

package main

// C14 over a real socket with real sleeps: the 0x8003 frame as the terminal receives it.

import (
	"bytes"
	"fmt"
	"math/rand"
	"strings"

	. "verifh/lib"
)

type sockOutcome struct {
	req   string
	kind  string
	viol  []Violation
	cases [][2]string // correspondence cases: op "rrw" request, the frame the terminal received
}

// rrwAnswer: the k-th 0x8003 frame of a conversation as the answer of op "rrw"
func rrwAnswer(res *SkResult, k int) (ans string, index int) {
	n := 0
	for i, f := range res.Frames {
		if f.OK && f.ID == 0x8003 {
			if n == k {
				return "ok " + Hx(f.Raw), i
			}
			n++
		}
	}
	return "none", -1
}

// rrwBySerial: the first 0x8003 frame whose body names the given original serial
func rrwBySerial(res *SkResult, serial uint16) (ans string, index int) {
	for i, f := range res.Frames {
		if f.OK && f.ID == 0x8003 && len(f.Body) >= 2 && f.Body[0] == byte(serial>>8) && f.Body[1] == byte(serial) {
			return "ok " + Hx(f.Raw), i
		}
	}
	return "none", -1
}

func init() {
	// rrw <platform serial> <k | s<first serial>> <step>...: replays the conversation (real sleeps) and shows the frame
	RegisterOp("rrw", func(a []string) string {
		if len(a) < 3 {
			return "bad-args"
		}
		res := SkPlay(SkParseSteps(a[2:]))
		if res.Crashed {
			return "crash"
		}
		if strings.HasPrefix(a[1], "s") {
			ser := 0
			fmt.Sscan(a[1][1:], &ser)
			ans, _ := rrwBySerial(res, uint16(ser))
			return ans
		}
		k := 0
		fmt.Sscan(a[1], &k)
		ans, _ := rrwAnswer(res, k)
		return ans
	})
}

type sockPlan struct {
	kind  string
	steps []SkStep
	// expectations
	reads    []string // canonical prefix "id,serial,sum,no,complete,body,terminaldata," of every OnReadExecutionEvent
	rr       []expRR  // the re-requests, in order of time
	nreply   int      // number of 0x8001 replies expected (one per read event with a reply)
	bySerial bool     // the re-requests come from ONE read (map order): compare as a set keyed by the first serial
}

func canonPlain(f FrameSpec) string {
	return fmt.Sprintf("%d,%d,0,0,0,%s,%s,", f.ID, f.Serial, Hx(f.Body), Hx(f.Wire()))
}
func canonComplete(last FrameSpec, whole []byte) string {
	return fmt.Sprintf("%d,%d,%d,%d,1,%s,%s,", last.ID, last.Serial, last.Sum, last.No, Hx(whole), Hx(whole))
}

func socketScenarios(rng *rand.Rand, quick bool) []sockOutcome {
	var plans []sockPlan
	w := func(f FrameSpec) SkStep { return SkStep{Kind: 'w', Data: f.Wire()} }
	y := func(f FrameSpec) SkStep { return SkStep{Kind: 'y', Data: f.Wire()} }
	mk := func(n int) (Transfer, func(serial uint16) FrameSpec) {
		tr := mkTransfer(rng, []uint16{0x0200, 0x0704}[rng.Intn(2)], n, 20)
		return tr, func(serial uint16) FrameSpec { return SyncFrame(tr.Phone, tr.Ver2019, serial) }
	}
	{ // A: eight transfers of different ids stall together; one read after 5.1 s must re-request every
		// one of them (reissuePackChan holds 3: the reader has to wait for the writer, not drop);
		// then the first transfer is resupplied and completes
		tr, hb := mk(5)
		p := sockPlan{kind: "5s-round-8-ids", bySerial: true}
		p.steps = []SkStep{w(tr.Packet(1)), w(tr.Packet(3)), w(tr.Packet(5))}
		p.rr = []expRR{{id: tr.ID, serial: tr.Serial0, missing: []int{2, 4}, phone: tr.Phone, v2019: tr.Ver2019}}
		ids := []uint16{0x0801, 0x0805, 0x0800, 0x1205, 0x0104, 0x0100, 0x0102, 0x0200, 0x0704}
		used := 0
		for _, id := range ids {
			if id == tr.ID || used == 7 {
				continue
			}
			used++
			n := 2 + rng.Intn(5)
			o := mkTransfer(rng, id, n, 12)
			o.Phone, o.Ver2019 = tr.Phone, tr.Ver2019
			o.Serial0 = tr.Serial0 + uint16(100*used) // distinct first serials: they identify the transfer in the 0x8003 body
			p.steps = append(p.steps, w(o.Packet(1)))
			var miss []int
			for q := 2; q <= n; q++ {
				if q == 2 || rng.Intn(2) == 0 { // packet 2 always missing
					miss = append(miss, q)
				} else {
					p.steps = append(p.steps, w(o.Packet(q)))
				}
			}
			p.rr = append(p.rr, expRR{id: id, serial: o.Serial0, missing: miss, phone: o.Phone, v2019: o.Ver2019})
		}
		p.steps = append(p.steps, y(hb(1)), SkStep{Kind: 's', Ms: 5100}, y(hb(2)), w(tr.Packet(4)), w(tr.Packet(2)), y(hb(3)), SkStep{Kind: 's', Ms: 150})
		p.reads = []string{canonPlain(hb(1)), canonPlain(hb(2)), canonComplete(tr.Packet(2), tr.Whole()), canonPlain(hb(3))}
		p.nreply = 4
		plans = append(plans, p)
	}
	if !quick {
		{ // B: rate and partial resupply
			tr, hb := mk(6)
			p := sockPlan{kind: "rate"}
			p.steps = []SkStep{w(tr.Packet(1)), w(tr.Packet(6)), {Kind: 's', Ms: 5200}, y(hb(1)), {Kind: 's', Ms: 2000}, y(hb(2)), w(tr.Packet(3)),
				{Kind: 's', Ms: 5200}, y(hb(3)), {Kind: 's', Ms: 5200}, y(hb(4)), w(tr.Packet(2)), w(tr.Packet(5)), w(tr.Packet(4)), y(hb(5))}
			p.reads = []string{canonPlain(hb(1)), canonPlain(hb(2)), canonPlain(hb(3)), canonPlain(hb(4)), canonComplete(tr.Packet(4), tr.Whole()), canonPlain(hb(5))}
			p.rr = []expRR{
				{id: tr.ID, serial: tr.Serial0, missing: []int{2, 3, 4, 5}, phone: tr.Phone, v2019: tr.Ver2019},
				{id: tr.ID, serial: tr.Serial0, missing: []int{2, 4, 5}, phone: tr.Phone, v2019: tr.Ver2019},
				{id: tr.ID, serial: tr.Serial0, missing: []int{2, 4, 5}, phone: tr.Phone, v2019: tr.Ver2019},
			}
			p.nreply = 6
			plans = append(plans, p)
		}
		{ // C: expiry after 60 s; the outstanding packet is the FIRST data after the limit (fix 4f00aa1): not delivered
			tr, hb := mk(3)
			p := sockPlan{kind: "60s-expiry"}
			p.steps = []SkStep{w(tr.Packet(1)), w(tr.Packet(2)), {Kind: 's', Ms: 5200}, y(hb(1)), {Kind: 's', Ms: 56000}, w(tr.Packet(3)), y(hb(2)), y(hb(3)),
				{Kind: 's', Ms: 5200}, y(hb(4))}
			p.reads = []string{canonPlain(hb(1)), canonPlain(hb(2)), canonPlain(hb(3)), canonPlain(hb(4))}
			p.rr = []expRR{{id: tr.ID, serial: tr.Serial0, missing: []int{3}, phone: tr.Phone, v2019: tr.Ver2019}}
			p.nreply = 4
			plans = append(plans, p)
		}
	}
	var out []sockOutcome
	for _, p := range plans {
		req := "sk " + SkStepsString(p.steps)
		o := sockOutcome{req: req, kind: p.kind}
		viol := func(sig, what, observed, required string) {
			o.viol = append(o.viol, Violation{Signature: "C14/socket-" + sig, What: what, Input: req, Observed: Trunc(observed, 3000), Required: Trunc(required, 3000)})
		}
		res := SkPlay(p.steps)
		if !res.Crashed && res.Timeout == "" {
			// the bytes written for every re-request against parser model + writer model: the platform
			// serial the model is given is the position of the frame among all frames written
			if p.bySerial {
				for _, e := range p.rr {
					ans, idx := rrwBySerial(res, e.serial)
					if idx < 0 {
						idx = 0 // the frame is missing: the model still says what should have been written
					}
					o.cases = append(o.cases, [2]string{fmt.Sprintf("rrw %d s%d %s", idx, e.serial, SkStepsString(p.steps)), ans})
				}
			} else {
				for k := 0; ; k++ {
					ans, idx := rrwAnswer(res, k)
					if idx < 0 {
						if k >= len(p.rr) {
							break
						}
						idx = 0 // an expected frame is missing: the model still says what should have been written
					}
					o.cases = append(o.cases, [2]string{fmt.Sprintf("rrw %d %d %s", idx, k, SkStepsString(p.steps)), ans})
				}
			}
		}
		switch {
		case res.Crashed:
			viol("crash", "the server process died", res.Stderr, "the server survives")
		case res.Timeout != "":
			viol("timeout", "the conversation did not finish: "+res.Timeout, res.String(), "an answer to every heartbeat and an orderly close")
		default:
			var got []string
			for _, r := range res.Reads {
				k := strings.LastIndex(r, ",")
				got = append(got, r[:k+1])
			}
			if strings.Join(got, ";") != strings.Join(p.reads, ";") {
				viol("delivery", "the messages handed to OnReadExecutionEvent differ (a transfer must complete after resupply, and never after expiry)", strings.Join(got, ";"), strings.Join(p.reads, ";"))
				break
			}
			var rrs, replies []SkFrame
			serials := map[uint16]bool{}
			okSer := true
			for _, f := range res.Frames {
				if !f.OK {
					viol("frame", "a frame from the server does not decode", Hx(f.Raw), "a well-formed frame")
					okSer = false
					break
				}
				if serials[f.Serial] || int(f.Serial) >= len(res.Frames) {
					okSer = false
				}
				serials[f.Serial] = true
				if f.ID == 0x8003 {
					rrs = append(rrs, f)
				} else {
					replies = append(replies, f)
				}
			}
			if !okSer {
				viol("platform-serial", "platform serial numbers of the frames sent are not a permutation of 0..n-1", res.String(), "each frame stamped with the next platform serial")
				break
			}
			if len(rrs) != len(p.rr) {
				viol("count", fmt.Sprintf("%d re-request frames on the wire, expected %d", len(rrs), len(p.rr)), res.String(), descrRR(p.rr))
				break
			}
			bad := false
			for i, e := range p.rr {
				f := rrs[i]
				if p.bySerial {
					found := false
					for _, g := range rrs {
						if len(g.Body) >= 2 && g.Body[0] == byte(e.serial>>8) && g.Body[1] == byte(e.serial) {
							f, found = g, true
							break
						}
					}
					if !found {
						viol("missing", fmt.Sprintf("no re-request on the wire for the stalled transfer of id %04x (first serial %d)", e.id, e.serial), res.String(), descrRR([]expRR{e}))
						bad = true
						break
					}
				}
				if f.Attr&(1<<13) != 0 || (f.Attr&(1<<14) != 0) != e.v2019 || !bytes.Equal(f.Phone, e.phone) || !bytes.Equal(f.Body, e.body()) {
					viol("list", fmt.Sprintf("re-request %d on the wire is not the expected one", i), Hx(f.Raw), descrRR([]expRR{e}))
					bad = true
					break
				}
			}
			if bad {
				break
			}
			if len(replies) != p.nreply {
				viol("replies", fmt.Sprintf("%d reply frames, expected %d", len(replies), p.nreply), res.String(), "one reply per delivered message")
				break
			}
			n8003 := 0
			for _, wv := range res.Writes {
				if strings.HasPrefix(wv, "32771,") {
					n8003++
				}
			}
			if n8003 != len(p.rr) {
				viol("callback", fmt.Sprintf("%d write callbacks for 0x8003, expected %d", n8003, len(p.rr)), strings.Join(res.Writes, ";"), "one OnWriteExecutionEvent per re-request")
				break
			}
			if len(res.Changed) > 0 {
				viol("unstable", "a delivered message changed after delivery", strings.Join(res.Changed, ";"), "delivered messages keep their content")
			}
		}
		out = append(out, o)
	}
	return out
}

package main

// C14 — missing sub-packages are re-requested exactly, stale transfers expire.
//
// Correspondence: op "sp" (packageParse.parse through VerifParser.Feed, clock moved with
// VerifParser.Age) against the extracted Model/Subpkg.v run_script: per read the error number,
// history length, pending transfers and every delivered message, the generated 0x8003 messages
// (body and encoded frame) included.
// Direct oracle (implementation only): a reference written from the property text keeps, per
// message id, the set of package numbers received, the time of packet 1 and the time of the last
// stored packet / last re-request.  After every read it demands: no 0x8003 for a transfer whose
// last progress is 5 s old or less; otherwise exactly one, whose body is <serial of packet 1 (WORD)>
// <count (BYTE)> <the missing numbers ascending (WORD each)> and whose frame is an unfragmented
// 0x8003 addressed to the terminal's phone number in the terminal's protocol version; a transfer
// older than 60 s is dropped without a re-request and never delivered (also when its outstanding
// packets are the first data after the limit); once the named packets
// arrive the message is delivered complete with the concatenated body.  Clock steps stay at least
// 5 ms away from the two limits (the implementation reads the wall clock).
// Socket level: the same against a real server with real sleeps (one 5.1 s scenario in the quick
// tier - eight transfers of different ids stalling together, so that one read generates more
// re-requests than reissuePackChan buffers -, 5 s / 61 s scenarios in the thorough tier): the 0x8003 frame on the wire, its platform
// serial, the write callback, completion after resupply.

import (
	"bytes"
	"fmt"
	"math/rand"
	"sort"
	"strings"
	"time"

	. "verifh/lib"
)

func main() {
	SockServeIfChild()
	Main("C14", c14)
}

// ---------------- scenario and reference ----------------

type frameItem struct {
	f  FrameSpec
	tr int // transfer index when this is a proper packet (number no), else -1
	no int
}

type action struct {
	age    int         // > 0: clock step
	frames []frameItem // else: one read; the frames whose closing delimiter it brings
	raw    []byte      // when set: the bytes of the read (part of a frame, or the rest of one); else the frames' wire bytes
}

type refX struct {
	present     map[int]bool
	create      int64
	stamp       int64
	firstSerial uint16
}

type expRR struct {
	id      uint16
	serial  uint16
	missing []int
	phone   []byte
	v2019   bool
}

func (e expRR) body() []byte {
	b := []byte{byte(e.serial >> 8), byte(e.serial), byte(len(e.missing))}
	for _, k := range e.missing {
		b = append(b, byte(k>>8), byte(k))
	}
	return b
}

type expRead struct {
	rr        []expRR
	completed []string // "id,bodyhex" in order
	nown      int      // number of messages extracted from frames in this read
}

// reference returns the expectation per read, whether some comparison came closer than margin ms to
// a limit (then the scenario is not used), and whether a 5 s / 60 s decision was exercised
func reference(trs []Transfer, acts []action, margin int64) (exp []expRead, tooClose bool, nontrivial bool) {
	now := int64(0)
	xs := map[int]*refX{}
	for _, a := range acts {
		if a.age > 0 {
			now += int64(a.age)
			continue
		}
		var e expRead
		// a transfer older than 60 s is discarded before the packets of this read are looked at: late
		// packets never complete it (fix 4f00aa1)
		for t, x := range xs {
			age := now - x.create
			if abs64(age-60000) < margin {
				tooClose = true
			}
			if age > 60000 {
				delete(xs, t)
				nontrivial = true
			}
		}
		for _, it := range a.frames {
			e.nown++
			if it.tr < 0 {
				continue
			}
			n := len(trs[it.tr].Bodies)
			if it.no == 1 {
				xs[it.tr] = &refX{present: map[int]bool{}, create: now, stamp: now, firstSerial: it.f.Serial}
			}
			x := xs[it.tr]
			if x == nil {
				continue
			}
			x.present[it.no] = true
			x.stamp = now
			if len(x.present) == n {
				e.completed = append(e.completed, fmt.Sprintf("%d,%s", trs[it.tr].ID, Hx(trs[it.tr].Whole())))
				delete(xs, it.tr)
			}
		}
		// end of the read
		for t, x := range xs {
			age := now - x.create
			if abs64(age-60000) < margin {
				tooClose = true
			}
			if age > 60000 {
				delete(xs, t)
				nontrivial = true
				continue
			}
			idle := now - x.stamp
			if abs64(idle-5000) < margin {
				tooClose = true
			}
			if idle > 5000 {
				nontrivial = true
				var miss []int
				for k := 1; k <= len(trs[t].Bodies); k++ {
					if !x.present[k] {
						miss = append(miss, k)
					}
				}
				e.rr = append(e.rr, expRR{id: trs[t].ID, serial: x.firstSerial, missing: miss, phone: trs[t].Phone, v2019: trs[t].Ver2019})
				x.stamp = now
			} else if idle > 4000 {
				nontrivial = true
			}
		}
		sort.Slice(e.rr, func(i, j int) bool { return e.rr[i].id < e.rr[j].id })
		exp = append(exp, e)
	}
	return
}

func abs64(x int64) int64 {
	if x < 0 {
		return -x
	}
	return x
}

func toSteps(acts []action) []Step {
	var st []Step
	for _, a := range acts {
		if a.age > 0 {
			st = append(st, Step{Age: a.age, IsAge: true})
			continue
		}
		if a.raw != nil {
			st = append(st, Step{Data: a.raw})
			continue
		}
		var w []byte
		for _, it := range a.frames {
			w = append(w, it.f.Wire()...)
		}
		st = append(st, Step{Data: w})
	}
	return st
}

// splitReads makes sure no read exceeds 1023 bytes (frames are kept whole)
func splitReads(acts []action) []action {
	var out []action
	for _, a := range acts {
		if a.age > 0 || a.raw != nil {
			out = append(out, a)
			continue
		}
		var cur []frameItem
		sz := 0
		for _, it := range a.frames {
			l := len(it.f.Wire())
			if sz+l > 1023 && len(cur) > 0 {
				out = append(out, action{frames: cur})
				cur, sz = nil, 0
			}
			cur = append(cur, it)
			sz += l
		}
		if len(cur) > 0 {
			out = append(out, action{frames: cur})
		}
	}
	return out
}

type checker struct {
	c *Ctx
}

func (k checker) run(trs []Transfer, acts []action, kind string) {
	c := k.c
	acts = splitReads(acts)
	exp, tooClose, nontriv := reference(trs, acts, 5)
	if tooClose {
		c.Count("discarded/too-close-to-a-limit")
		return
	}
	st := toSteps(acts)
	req := "sp " + StepsString(st)
	obs, ok := RunScriptWall(st, 3*time.Millisecond)
	if !ok {
		c.Count("discarded/wall-clock")
		return
	}
	c.Case(req, ObsString(obs), nontriv)
	c.Count(kind)
	viol := func(sig, what, observed, required string) {
		c.Violate(Violation{Signature: "C14/" + sig, What: what, Input: req, Observed: Trunc(observed, 3000), Required: Trunc(required, 3000)})
	}
	if len(obs) != len(exp) {
		viol("error", "not every read was processed", fmt.Sprint(len(obs)), fmt.Sprint(len(exp)))
		return
	}
	for i, o := range obs {
		e := exp[i]
		if o.Err != "0" {
			viol("error", fmt.Sprintf("read %d reported an error / panic", i), o.String(), "no error")
			return
		}
		var gotRR []string
		var gotC []string
		own := 0
		for _, m := range o.Msgs {
			p := strings.Split(m, ",")
			switch {
			case p[0] == "32771" && p[2] == "0" && isGenerated(p[6], trs):
				gotRR = append(gotRR, m)
			case p[4] == "1":
				gotC = append(gotC, p[0]+","+p[5])
			default:
				own++
			}
		}
		if strings.Join(gotC, ";") != strings.Join(e.completed, ";") {
			sig := "completion"
			if len(gotC) > len(e.completed) {
				sig = "delivered-after-expiry-or-early"
			}
			viol(sig, fmt.Sprintf("read %d: completed messages differ", i), strings.Join(gotC, ";"), strings.Join(e.completed, ";"))
			return
		}
		if own != e.nown {
			viol("count", fmt.Sprintf("read %d: %d messages extracted from %d frames", i, own, e.nown), o.String(), "one per frame")
			return
		}
		// re-requests: as a set keyed by the id the request belongs to (recognised by the phone + body)
		if len(gotRR) != len(e.rr) {
			sig := ""
			if len(gotRR) > len(e.rr) {
				sig = "unexpected-rerequest"
			} else {
				sig = "no-rerequest"
			}
			viol(sig, fmt.Sprintf("read %d: %d re-requests, expected %d", i, len(gotRR), len(e.rr)), strings.Join(gotRR, ";"), descrRR(e.rr))
			return
		}
		used := make([]bool, len(gotRR))
		for _, r := range e.rr {
			found := false
			wantBody := Hx(r.body())
			for j, g := range gotRR {
				if used[j] {
					continue
				}
				p := strings.Split(g, ",")
				fr := SkDecode(Unhx(p[6]))
				if p[5] == wantBody && fr.OK && fr.ID == 0x8003 && fr.Attr&(1<<13) == 0 && (fr.Attr&(1<<14) != 0) == r.v2019 &&
					bytes.Equal(fr.Phone, r.phone) && bytes.Equal(fr.Body, r.body()) {
					used[j] = true
					found = true
					break
				}
			}
			if !found {
				viol("list", fmt.Sprintf("read %d: no 0x8003 naming serial %d and exactly the missing numbers %v of id %d, addressed to %x", i, r.serial, r.missing, r.id, r.phone),
					strings.Join(gotRR, ";"), descrRR([]expRR{r}))
				return
			}
		}
	}
}

// a generated re-request's frame carries the phone of one of the scenario's transfers (an inbound
// frame with id 0x8003 built by RandFrame never does: its phone is drawn separately)
func isGenerated(rawHex string, trs []Transfer) bool {
	fr := SkDecode(Unhx(rawHex))
	if !fr.OK {
		return true
	}
	for _, t := range trs {
		if bytes.Equal(fr.Phone, t.Phone) {
			return true
		}
	}
	return false
}

func descrRR(rs []expRR) string {
	var sb []string
	for _, r := range rs {
		sb = append(sb, fmt.Sprintf("0x8003 for id=%d phone=%x body=%s", r.id, r.phone, Hx(r.body())))
	}
	return strings.Join(sb, ";")
}

func heartbeat(rng *rand.Rand) frameItem {
	f := FrameSpec{ID: 0x0002, Ver2019: rng.Intn(2) == 0, Serial: uint16(rng.Intn(65536))}
	f.Phone = RandPhone(rng, f.Ver2019)
	f.Phone[0] = 0x99 // never the phone of a transfer (those start with a digit pair drawn below 0x99 almost surely; see mkTransfer)
	return frameItem{f: f, tr: -1}
}

func mkTransfer(rng *rand.Rand, id uint16, n, maxBody int) Transfer {
	t := RandTransfer(rng, id, n, maxBody)
	if t.Phone[0] == 0x99 {
		t.Phone[0] = 0x12
	}
	return t
}

func pkt(trs []Transfer, t, no int) frameItem { return frameItem{f: trs[t].Packet(no), tr: t, no: no} }

func c14(c *Ctx) {
	c.Rule = "transfers of N packets with packet 1 and a subset of the others received (every non-empty missing subset for N <= 11 quick / 13 thorough exhaustively; N in {64,255} and random N with random subsets), then clock steps (VerifParser.Age) 4995 / 5005 ms around the 5 s limit and 59995 / 60005 ms around the 60 s limit, repeated re-request rounds (the triggering read sometimes holding only part of a frame), partial resupply, duplicates and impossible numbers between rounds, restarts by a new packet 1, up to three message ids concurrently (also with STAGGERED idle periods: each id goes stale at its own time within 5 s of the others, several rounds), completion after resupply, late packets after expiry; every read is followed by the housekeeping pass. A case is non-trivial when a 5 s or 60 s decision is exercised with a transfer pending; distinct = distinct request lines"
	rng := c.Rng
	quick := c.Quick()
	k := checker{c}

	// the socket scenarios sleep in real time: run them concurrently, evaluate at the end
	sockDone := make(chan []sockOutcome, 1)
	go func() { sockDone <- socketScenarios(rand.New(rand.NewSource(c.Seed+1000)), quick) }()

	ids := []uint16{0x0801, 0x0704, 0x0200, 0x0805, 0x1205}

	// (1) exhaustive: every non-empty missing subset
	maxN := 11
	if !quick {
		maxN = 13
	}
	for n := 2; n <= maxN; n++ {
		for mask := 1; mask < 1<<(n-1); mask++ { // bit j set: packet j+2 missing
			trs := []Transfer{mkTransfer(rng, ids[rng.Intn(len(ids))], n, 4)}
			var present, missing []int
			for j := 0; j < n-1; j++ {
				if mask>>j&1 == 1 {
					missing = append(missing, j+2)
				} else {
					present = append(present, j+2)
				}
			}
			rng.Shuffle(len(present), func(a, b int) { present[a], present[b] = present[b], present[a] })
			first := action{frames: []frameItem{pkt(trs, 0, 1)}}
			acts := []action{}
			if rng.Intn(2) == 0 { // coalesced
				for _, p := range present {
					first.frames = append(first.frames, pkt(trs, 0, p))
				}
				acts = append(acts, first)
			} else {
				acts = append(acts, first)
				for _, p := range present {
					acts = append(acts, action{frames: []frameItem{pkt(trs, 0, p)}})
				}
			}
			below := rng.Intn(3) == 0
			if below {
				acts = append(acts, action{age: 4995}, action{frames: []frameItem{heartbeat(rng)}}, action{age: 10})
			} else {
				acts = append(acts, action{age: 5005})
			}
			acts = append(acts, action{frames: []frameItem{heartbeat(rng)}})
			// resupply in random order: completes
			rng.Shuffle(len(missing), func(a, b int) { missing[a], missing[b] = missing[b], missing[a] })
			if rng.Intn(2) == 0 {
				var fs []frameItem
				for _, m := range missing {
					fs = append(fs, pkt(trs, 0, m))
				}
				acts = append(acts, action{frames: fs})
			} else {
				for _, m := range missing {
					acts = append(acts, action{frames: []frameItem{pkt(trs, 0, m)}})
				}
			}
			k.run(trs, acts, fmt.Sprintf("exh/N%d", n))
		}
	}
	c.Exhaustive = true

	// (2) random histories
	nrand := 2500
	if !quick {
		nrand = 60000
	}
	ages := []int{10, 100, 1000, 2000, 3000, 4995, 5005, 5005, 5005, 9000, 20000, 30000, 49000, 59995, 60005}
	for i := 0; i < nrand; i++ {
		ntr := 1 + rng.Intn(3)
		rng.Shuffle(len(ids), func(a, b int) { ids[a], ids[b] = ids[b], ids[a] })
		var trs []Transfer
		for t := 0; t < ntr; t++ {
			n := 2 + rng.Intn(8)
			switch rng.Intn(12) {
			case 0:
				n = 255
			case 1:
				n = 64
			case 2:
				n = 11 + rng.Intn(30)
			}
			mb := 6
			if n > 40 {
				mb = 2
			}
			tr := mkTransfer(rng, ids[t], n, mb)
			if t > 0 && rng.Intn(2) == 0 {
				tr.Phone, tr.Ver2019 = trs[0].Phone, trs[0].Ver2019
			}
			trs = append(trs, tr)
		}
		started := make([]bool, ntr)
		have := make([]map[int]bool, ntr)
		var acts []action
		nact := 4 + rng.Intn(16)
		for a := 0; a < nact; a++ {
			if rng.Intn(3) == 0 {
				acts = append(acts, action{age: ages[rng.Intn(len(ages))]})
				continue
			}
			var fs []frameItem
			nf := 1 + rng.Intn(3)
			for x := 0; x < nf; x++ {
				t := rng.Intn(ntr)
				n := len(trs[t].Bodies)
				switch r := rng.Intn(12); {
				case !started[t] || r == 0: // packet 1 (a restart when already started: new serial)
					it := pkt(trs, t, 1)
					if started[t] {
						it.f.Serial = uint16(rng.Intn(65536))
					}
					started[t] = true
					have[t] = map[int]bool{1: true}
					fs = append(fs, it)
				case r <= 5: // some missing packets (a bunch for large transfers)
					cnt := 1
					if n > 20 {
						cnt = 1 + rng.Intn(n/2)
					}
					for ; cnt > 0; cnt-- {
						var miss []int
						for q := 2; q <= n; q++ {
							if !have[t][q] {
								miss = append(miss, q)
							}
						}
						if len(miss) == 0 {
							break
						}
						q := miss[rng.Intn(len(miss))]
						have[t][q] = true
						fs = append(fs, pkt(trs, t, q))
					}
				case r == 6: // duplicate of a packet 2..N already sent
					var got []int
					for q := range have[t] {
						if q != 1 {
							got = append(got, q)
						}
					}
					if len(got) > 0 {
						sort.Ints(got)
						fs = append(fs, pkt(trs, t, got[rng.Intn(len(got))]))
					}
				case r == 7: // impossible number
					fs = append(fs, frameItem{f: trs[t].Odd([]int{0, n + 1, 65535}[rng.Intn(3)], RandBody(rng, 1+rng.Intn(3))), tr: -1})
				default:
					fs = append(fs, heartbeat(rng))
				}
			}
			if len(fs) > 0 {
				acts = append(acts, action{frames: fs})
			}
		}
		acts = append(acts, action{frames: []frameItem{heartbeat(rng)}})
		k.run(trs, acts, "random")
	}

	// (3) structured: rounds of re-requests with partial resupply until complete or expired
	nround := 400
	if !quick {
		nround = 8000
	}
	for i := 0; i < nround; i++ {
		n := 3 + rng.Intn(10)
		if rng.Intn(8) == 0 {
			n = []int{64, 255}[rng.Intn(2)]
		}
		trs := []Transfer{mkTransfer(rng, ids[rng.Intn(len(ids))], n, 3)}
		var missing []int
		first := action{frames: []frameItem{pkt(trs, 0, 1)}}
		for q := 2; q <= n; q++ {
			if rng.Intn(2) == 0 {
				missing = append(missing, q)
			} else {
				first.frames = append(first.frames, pkt(trs, 0, q))
			}
		}
		acts := []action{first}
		expire := rng.Intn(4) == 0
		for round := 0; len(missing) > 0 && round < 14; round++ {
			switch rng.Intn(4) {
			case 0:
				acts = append(acts, action{age: 4995}, action{frames: []frameItem{heartbeat(rng)}}, action{age: 10})
			case 1:
				acts = append(acts, action{age: 2000}, action{frames: []frameItem{heartbeat(rng)}}, action{age: 3005})
			default:
				acts = append(acts, action{age: 5005})
			}
			if rng.Intn(3) == 0 { // the triggering data is only PART of a frame: the pass runs at the end of that read too
				hb := heartbeat(rng)
				w := hb.f.Wire()
				cut := 1 + rng.Intn(len(w)-1)
				acts = append(acts, action{raw: w[:cut]}, action{raw: w[cut:], frames: []frameItem{hb}})
			} else {
				acts = append(acts, action{frames: []frameItem{heartbeat(rng)}})
			}
			if expire && round > 2 {
				continue // keep idling until the 60 s limit passes
			}
			// resupply a part (or everything)
			take := 1 + rng.Intn(len(missing))
			if rng.Intn(3) == 0 {
				take = len(missing)
			}
			rng.Shuffle(len(missing), func(a, b int) { missing[a], missing[b] = missing[b], missing[a] })
			var fs []frameItem
			for _, m := range missing[:take] {
				fs = append(fs, pkt(trs, 0, m))
			}
			missing = missing[take:]
			acts = append(acts, action{frames: fs})
		}
		if len(missing) > 0 { // late packets after expiry, then a fresh start completes normally
			var fs []frameItem
			for _, m := range missing {
				fs = append(fs, pkt(trs, 0, m))
			}
			acts = append(acts, action{frames: fs}, action{frames: []frameItem{heartbeat(rng)}})
		}
		k.run(trs, acts, "rounds")
	}

	// (4) the 60 s limit exactly: 59995 -> still there (and re-requested), +10 -> gone; the last packets
	// arriving as the first data after the limit are ignored (the transfer is dropped first)
	nexp := 200
	if !quick {
		nexp = 4000
	}
	for i := 0; i < nexp; i++ {
		n := 2 + rng.Intn(6)
		trs := []Transfer{mkTransfer(rng, ids[rng.Intn(len(ids))], n, 3)}
		acts := []action{{frames: []frameItem{pkt(trs, 0, 1)}}}
		var rest []frameItem
		for q := 2; q <= n; q++ {
			rest = append(rest, pkt(trs, 0, q))
		}
		switch rng.Intn(4) {
		case 0:
			acts = append(acts, action{age: 59995}, action{frames: []frameItem{heartbeat(rng)}}, action{age: 10}, action{frames: []frameItem{heartbeat(rng)}}, action{frames: rest})
		case 1:
			acts = append(acts, action{age: 60005}, action{frames: rest}) // the late packets come as the first data after 60 s: never delivered
		case 2:
			acts = append(acts, action{age: 60005}, action{frames: []frameItem{heartbeat(rng)}}, action{frames: rest}, action{age: 5005}, action{frames: []frameItem{heartbeat(rng)}})
		default:
			// kept alive by traffic but never completed: expires although the last packet is recent
			for t := 0; t < 13; t++ {
				acts = append(acts, action{age: 4800}, action{frames: []frameItem{pkt(trs, 0, 1+rng.Intn(n))}})
				if acts[len(acts)-1].frames[0].no == 1 {
					acts[len(acts)-1].frames[0] = heartbeat(rng)
				}
			}
			acts = append(acts, action{frames: rest})
		}
		k.run(trs, acts, "expiry")
	}

	// (5) staggered idle periods: two or three transfers of different ids whose last packets arrive a
	// few hundred ms .. 4 s apart: each goes stale at its own time, within 5 s of the others; a
	// re-request for one id must not refresh the idle clock of another (seeded bug C14-15), over
	// several rounds and with partial resupply of one of them in between
	nstag := 400
	if !quick {
		nstag = 8000
	}
	for i := 0; i < nstag; i++ {
		ntr := 2 + rng.Intn(2)
		rng.Shuffle(len(ids), func(a, b int) { ids[a], ids[b] = ids[b], ids[a] })
		var trs []Transfer
		for t := 0; t < ntr; t++ {
			tr := mkTransfer(rng, ids[t], 3+rng.Intn(5), 4)
			if t > 0 && rng.Intn(2) == 0 {
				tr.Phone, tr.Ver2019 = trs[0].Phone, trs[0].Ver2019
			}
			trs = append(trs, tr)
		}
		// absolute schedule: (time, frames)
		type ev struct {
			at     int
			frames []frameItem
		}
		var evs []ev
		last := make([]int, ntr) // time of the last stored packet / expected re-request of each transfer
		missing := make([][]int, ntr)
		at := 0
		for t := 0; t < ntr; t++ {
			if t > 0 {
				at += 300 + rng.Intn(1900) // all within 4.7 s of the first
			}
			fs := []frameItem{pkt(trs, t, 1)}
			for q := 2; q <= len(trs[t].Bodies); q++ {
				if q == 2 || rng.Intn(2) == 0 {
					missing[t] = append(missing[t], q)
				} else {
					fs = append(fs, pkt(trs, t, q))
				}
			}
			evs = append(evs, ev{at, fs})
			last[t] = at
		}
		// rounds: every transfer is polled 5005 ms after its own last progress; sometimes a packet of it is resupplied right after
		rounds := 1 + rng.Intn(3)
		for r := 0; r < rounds; r++ {
			for t := 0; t < ntr; t++ {
				when := last[t] + 5005
				evs = append(evs, ev{when, []frameItem{heartbeat(rng)}})
				last[t] = when
				if len(missing[t]) > 1 && rng.Intn(3) == 0 {
					q := missing[t][0]
					missing[t] = missing[t][1:]
					evs = append(evs, ev{when + 40 + rng.Intn(100), []frameItem{pkt(trs, t, q)}})
					last[t] = evs[len(evs)-1].at
				}
			}
		}
		sort.SliceStable(evs, func(a, b int) bool { return evs[a].at < evs[b].at })
		var acts []action
		now := 0
		for _, e := range evs {
			if e.at > now {
				acts = append(acts, action{age: e.at - now})
				now = e.at
			}
			acts = append(acts, action{frames: e.frames})
		}
		k.run(trs, acts, "staggered")
	}

	for _, o := range <-sockDone {
		c.Eval(o.req, true)
		c.Count("socket/" + o.kind)
		for _, v := range o.viol {
			c.Violate(v)
		}
		for _, cs := range o.cases {
			c.Case(cs[0], cs[1], true)
			c.Count("socket/rerequest-frame-vs-model")
		}
	}
}

// C11 — session registry: at most one live connection per terminal key.
//
// Ties the model (coq/Model/Registry.v) to /repo over real loopback sockets:
//
//	regseq  sequential scripts: every operation completes before the next starts; the
//	        per-operation observations (OnJoinEvent/OnLeaveEvent, which socket received the
//	        command, ErrNotExistKey) are compared one by one with the model's run;
//	reglin  concurrent scripts: one goroutine per connection and per caller with random
//	        timing (and, in the child built with the delay overlay, random delays at every
//	        channel operation of connection.go); the recorded history (operation, real-time
//	        interval, observation) is given to the oracle, which searches a linearisation
//	        that the model explains.
//
// The direct oracle checks the property itself on the implementation: no two live owners of a
// key, a refused connection is closed and told so while the first keeps working, leave carries
// the connection's own key, a freed key can be taken again, commands go to the current owner,
// a key that is not online fails at once, callbacks come once each.
//
// Synchronisation is by events, never by sleeping: a terminal learns that the server has
// finished an operation from what it receives on its own socket (the 0x8001 answer to its
// message is written after OnJoinEvent returned; the server closes the socket after
// OnLeaveEvent returned), so "callback missing" is decided by happens-before, not by a timer.
// The only timer is the stall bound (15 s without progress on loopback), which is confirmed by
// running the same request again in a fresh server before it is reported.
//
// Everything that touches the server runs in a CHILD process (lib/child_conc.go) so that a
// crash of the server (send on a closed channel ...) is observed and attributed to a script.
package main

import (
	"encoding/json"
	"errors"
	"fmt"
	"math/rand"
	"net"
	"os"
	"path/filepath"
	"sort"
	"strconv"
	"strings"
	"sync"
	"time"

	"github.com/cuteLittleDevil/go-jt808/service"
	"github.com/cuteLittleDevil/go-jt808/shared/consts"

	. "verifh/lib"
)

const (
	cmdID      = 0x9102
	stallAfter = 15 * time.Second
	cmdTimeout = 20 * time.Second // OverTimeDuration of every command; never fires on a healthy run
	// "a command for a key that is not online fails at once": the manager answers in the closure that looks
	// the key up.  Its latency is measured on every such call (evidence: extra.noexist_latency_*); one slow
	// answer is only slowness, it is a violation when the SAME call, repeated at once in a sequential script
	// (nothing else is going on), is slow again.
	slowNoExist = 5 * time.Second
)

// latency of manager ErrNotExistKey answers in this child (microseconds)
var (
	nxMu    sync.Mutex
	nxMax   int64
	nxCount int64
	nxHist  [5]int64 // <1ms <10ms <100ms <1s >=1s
	nxSlow  int64    // answers slower than the bound that were asked again (one slow answer alone is not a violation)
)

func nxRecord(d time.Duration) {
	us := d.Microseconds()
	nxMu.Lock()
	defer nxMu.Unlock()
	nxCount++
	if us > nxMax {
		nxMax = us
	}
	switch {
	case us < 1000:
		nxHist[0]++
	case us < 10000:
		nxHist[1]++
	case us < 100000:
		nxHist[2]++
	case us < 1000000:
		nxHist[3]++
	default:
		nxHist[4]++
	}
}

const required = "at most one live owner per key; a refused connection is closed and told so, the first is not affected; leave carries the connection's own key and frees only it; a freed key can be taken again; commands go to the current owner; a key that is not online fails at once; one join and one leave callback per connection"

// stall is the panic value of a bounded wait that expired.
type stall struct{ what string }

// keyFunc of the harness server: phone 99xxx -> invalid; phone 88 -> the empty key; else key = "0" + phone.
func keyOf(phone string) (string, bool) {
	if strings.HasPrefix(phone, "99") {
		return "", false
	}
	if phone == "88" {
		return "", true
	}
	// every ordinary key starts with the digit 0 (a KeyFunc may yield any string; the default one yields the all-zero
	// SIM with its zeros): routing must use the key exactly as it was announced, not a normalised form of it
	return "0" + phone, true
}

func phoneOfKey(k int) string {
	if k == 0 {
		return "88"
	}
	return strconv.Itoa(k)
}

func keyNum(key string) string {
	if key == "" {
		return "0"
	}
	return strings.TrimPrefix(key, "0")
}

var (
	srvOnce sync.Once
	srv     *Srv
)

func server() *Srv {
	srvOnce.Do(func() { srv = StartSrv(keyOf) })
	return srv
}

// ---------------------------------------------------------------- terminals

// regTerm: a terminal that answers every platform command with a 0x0001 echo and records it.
type regTerm struct {
	t   *Term
	idx int // index of its eventer in the recorder
	mu  sync.Mutex
	sig chan struct{}
	// under mu
	replies int   // 0x8001 answers received
	got     []int // tag (first two body bytes) of every command received
	eof     bool  // the server closed the socket (or we did)
	// owned by the goroutine that runs the connection's program
	evSeen int // callbacks already consumed
	phone  string
	closed bool // the script ended it
	joined bool // OnJoinEvent(.., nil) consumed
}

var dialMu sync.Mutex

// dial connects one terminal; accept order = recorder index order because dials are serialised.
func dial(s *Srv, stamp func() int64) (r *regTerm, inv, resp int64) {
	dialMu.Lock()
	defer dialMu.Unlock()
	inv = stamp()
	n := s.Rec.NConns()
	// a failing dial is the harness's own resource limit (loopback ports in TIME_WAIT after thousands of
	// connections), not the server's doing: wait it out (TIME_WAIT lasts 60 s) before calling it a stall
	var t *Term
	var err error
	for start := time.Now(); ; {
		if t, err = DialTerm(s.Addr, "1"); err == nil {
			break
		}
		if time.Since(start) > 75*time.Second {
			panic(stall{"dial: " + err.Error()})
		}
		time.Sleep(100 * time.Millisecond)
	}
	if !s.Rec.WaitConns(n+1, stallAfter) {
		panic(stall{"connection not accepted by the server"})
	}
	r = &regTerm{t: t, idx: n, sig: make(chan struct{}, 1)}
	go func() {
		for f := range t.Frames {
			if f.Bad != "" {
				continue
			}
			r.mu.Lock()
			if f.ID == 0x8001 {
				r.replies++
				r.mu.Unlock()
				r.ping()
				continue
			}
			tag := -1
			if len(f.Body) >= 2 {
				tag = int(f.Body[0]) | int(f.Body[1])<<8
			}
			r.got = append(r.got, tag)
			ph := r.phone
			r.mu.Unlock()
			t.SendAs(ph, 0x0001, RespBody(0x0001, f.Serial, f.ID))
		}
		r.mu.Lock()
		r.eof = true
		r.mu.Unlock()
		r.ping()
	}()
	return r, inv, stamp()
}

func (r *regTerm) ping() {
	select {
	case r.sig <- struct{}{}:
	default:
	}
}

// waitFor blocks until pred (evaluated under r.mu) holds; a stall panics.
func (r *regTerm) waitFor(what string, pred func() bool) {
	deadline := time.NewTimer(stallAfter)
	defer deadline.Stop()
	for {
		r.mu.Lock()
		ok := pred()
		r.mu.Unlock()
		if ok {
			return
		}
		select {
		case <-r.sig:
		case <-deadline.C:
			panic(stall{what})
		}
	}
}

func (r *regTerm) isEOF() bool   { r.mu.Lock(); defer r.mu.Unlock(); return r.eof }
func (r *regTerm) nreplies() int { r.mu.Lock(); defer r.mu.Unlock(); return r.replies }
func (r *regTerm) setPhone(p string) {
	r.mu.Lock()
	r.phone = p
	r.mu.Unlock()
}

// heartbeat sends one 0x0002 and waits for its answer or for the server closing the socket.
func (r *regTerm) heartbeat(phone, what string) (answered bool) {
	before := r.nreplies()
	r.t.SendAs(phone, 0x0002, nil)
	r.waitFor(what, func() bool { return r.replies > before || r.eof })
	return r.nreplies() > before
}

// fragmented sends one 0x0200 as two sub-packaged frames (two writes) and waits for the answer to the
// completed message or for the server closing the socket.  With the default FilterSubcontract the first
// fragment alone is handled silently (no execution event, no reply) - but it IS the connection's first
// handled message: the join, and its announcement, happen on it.
func (r *regTerm) fragmented(phone, what string) (answered bool) {
	before := r.nreplies()
	body := make([]byte, 56)
	copy(body[22:], []byte{0x24, 0x10, 0x01, 0x12, 0x30, 0x45})
	copy(body[50:], []byte{0x24, 0x10, 0x01, 0x12, 0x30, 0x46})
	ser := r.t.NextSerial()
	r.t.NextSerial()
	for _, fr := range ConcFragFrames(0x0200, phone, ser, body, 2) {
		r.t.SendRaw(fr)
	}
	r.waitFor(what, func() bool { return r.replies > before || r.eof })
	return r.nreplies() > before
}

// recvBy: the connection that received the command with this tag (-1 none, -2 several).
func recvBy(conns []*regTerm, tag int) int {
	got := -1
	for j, r := range conns {
		r.mu.Lock()
		for _, b := range r.got {
			if b == tag {
				if got >= 0 {
					got = -2
				} else {
					got = j
				}
			}
		}
		r.mu.Unlock()
	}
	return got
}

func evTok(c int, e Ev) string {
	if e.Kind == "join" {
		code := map[string]string{"": "0", "exist": "1", "invalid": "2"}[e.Err]
		if code == "" {
			code = "9"
		}
		return fmt.Sprintf("j:%d:%s:%s", c, keyNum(e.Key), code)
	}
	return fmt.Sprintf("l:%d:%s", c, keyNum(e.Key))
}

// take consumes the next callback of connection c.  wait=false: the caller has already seen on the
// terminal's socket something the server did AFTER the callback returned, so the callback is either
// recorded or was never made.  wait=true (abrupt close: nothing to see on the socket): bounded wait.
func take(s *Srv, r *regTerm, c int, wait bool) string {
	var evs []Ev
	if wait {
		var ok bool
		evs, ok = s.Rec.WaitEvents(r.idx, r.evSeen+1, stallAfter)
		if !ok {
			panic(stall{fmt.Sprintf("no callback for connection %d within %v of closing its socket", c, stallAfter)})
		}
	} else {
		evs = s.Rec.Events(r.idx)
	}
	if len(evs) <= r.evSeen {
		return fmt.Sprintf("missing-callback:%d", c)
	}
	e := evs[r.evSeen]
	r.evSeen++
	if e.Kind == "join" && e.Err == "" {
		r.joined = true
	}
	return evTok(c, e)
}

// endConn ends connection c in the given way and returns its leave observation.
//
//	s   half-close (FIN), wait until the server has closed its side (after OnLeaveEvent)
//	sc  full close, sr  reset: wait for the callback itself (bounded)
func endConn(s *Srv, r *regTerm, c int, how string) string {
	r.closed = true
	if r.isEOF() { // the server closed first (refused connection): its leave callback is there
		o := take(s, r, c, false)
		r.t.Close()
		return o
	}
	switch how {
	case "sc":
		r.t.Close()
		return take(s, r, c, true)
	case "sr":
		r.t.Reset()
		return take(s, r, c, true)
	}
	r.t.Conn.CloseWrite()
	r.waitFor(fmt.Sprintf("server did not close connection %d within %v of the terminal's FIN", c, stallAfter),
		func() bool { return r.eof })
	o := take(s, r, c, false)
	r.t.Close()
	return o
}

// ---------------------------------------------------------------- callers

type callRes struct {
	kind string // resp | timeout | wfail | noexist (manager: key not online) | stopped (connection ended with the command pending) | other
	dur  time.Duration
}

func call(s *Srv, key string, tag int) callRes {
	ch := make(chan callRes, 1)
	go func() {
		t0 := time.Now()
		m := s.G.SendActiveMessage(service.NewActiveMessage(key, consts.JT808CommandType(cmdID),
			[]byte{byte(tag), byte(tag >> 8), 0, 0}, cmdTimeout))
		r := callRes{kind: "other", dur: time.Since(t0)}
		if m != nil {
			err := m.ExtensionFields.Err
			switch {
			case err == nil:
				r.kind = "resp"
			case errors.Is(err, service.ErrWriteDataOverTime):
				r.kind = "timeout"
			case errors.Is(err, service.ErrWriteDataFail):
				r.kind = "wfail"
			case errors.Is(err, service.ErrNotExistKey) && errors.Is(err, net.ErrClosed):
				r.kind = "stopped"
			case errors.Is(err, service.ErrNotExistKey):
				r.kind = "noexist"
			}
		}
		ch <- r
	}()
	select {
	case r := <-ch:
		return r
	case <-time.After(cmdTimeout + stallAfter):
		panic(stall{fmt.Sprintf("SendActiveMessage for key %q did not return within %v", key, cmdTimeout+stallAfter)})
	}
}

// ---------------------------------------------------------------- sequential scripts

type seqRun struct {
	s     *Srv
	conns []*regTerm
	ncall int
	notes []string // direct-oracle complaints
	// what the script itself knows (literal bookkeeping for the direct oracle, not the model)
	holder map[string]int // key -> connection that joined ok and has not been ended by the script
}

func newSeqRun() *seqRun { return &seqRun{s: server(), holder: map[string]int{}} }

func (q *seqRun) note(f string, a ...any) { q.notes = append(q.notes, fmt.Sprintf(f, a...)) }

func nostamp() int64 { return 0 }

func (q *seqRun) exec(tok string) []string {
	p := strings.Split(tok, ":")
	num := func(i int) int { n, _ := strconv.Atoi(p[i]); return n }
	switch p[0] {
	case "c":
		r, _, _ := dial(q.s, nostamp)
		q.conns = append(q.conns, r)
		return nil
	case "f", "ff", "b", "m":
		c := num(1)
		if c >= len(q.conns) || q.conns[c].closed || q.conns[c].isEOF() {
			return nil
		}
		r := q.conns[c]
		if r.joined { // any later message, with whatever phone: no manager operation, the connection stays up
			phone := r.phone
			if p[0] == "f" || p[0] == "ff" {
				phone = phoneOfKey(num(2))
			}
			send := r.heartbeat
			if p[0] == "ff" {
				send = r.fragmented
			}
			if !send(phone, fmt.Sprintf("joined connection %d: message neither answered nor closed", c)) {
				q.note("joined connection %d no longer answers heartbeats (closed by the server)", c)
			}
			return nil
		}
		if p[0] == "m" {
			return nil
		}
		phone := "99" + strconv.Itoa(c)
		if p[0] == "f" || p[0] == "ff" {
			phone = phoneOfKey(num(2))
		}
		r.setPhone(phone)
		first := r.heartbeat
		if p[0] == "ff" {
			first = r.fragmented
		}
		answered := first(phone, fmt.Sprintf("first message of connection %d neither answered nor refused", c))
		o := take(q.s, r, c, false)
		if p[0] == "f" || p[0] == "ff" {
			key, _ := keyOf(phone)
			switch {
			case strings.HasPrefix(o, "j:") && strings.HasSuffix(o, ":0"):
				if h, ok := q.holder[key]; ok {
					q.note("connection %d joined key %q while connection %d still holds it", c, key, h)
				}
				q.holder[key] = c
				if !answered {
					q.note("connection %d joined key %q but the server closed it", c, key)
				}
			case strings.HasPrefix(o, "j:") && strings.HasSuffix(o, ":1"):
				if _, ok := q.holder[key]; !ok {
					q.note("connection %d refused for key %q although no connection holds it", c, key)
				}
				if answered {
					q.note("refused connection %d was answered instead of closed", c)
				}
			}
		}
		return []string{o}
	case "s", "sc", "sr":
		c := num(1)
		if c >= len(q.conns) || q.conns[c].closed {
			return nil
		}
		o := endConn(q.s, q.conns[c], c, p[0])
		for k, h := range q.holder {
			if h == c {
				delete(q.holder, k)
				if o != fmt.Sprintf("l:%d:%s", c, keyNum(k)) {
					q.note("owner %d of key %q ended: leave callback %s", c, k, o)
				}
			}
		}
		return []string{o}
	case "w":
		k := num(1)
		i := q.ncall
		q.ncall++
		key, _ := keyOf(phoneOfKey(k))
		res := call(q.s, key, i)
		got := recvBy(q.conns, i)
		h, online := q.holder[key]
		switch {
		case got == -2:
			q.note("command for key %q written to more than one connection", key)
			return []string{fmt.Sprintf("?:%d:several", i)}
		case got >= 0:
			if !online || h != got {
				q.note("command for key %q went to connection %d, holder %v/%v", key, got, h, online)
			}
			if res.kind != "resp" {
				q.note("command for key %q answered by connection %d but the call returned %s", key, got, res.kind)
			}
			return []string{fmt.Sprintf("r:%d:%d", i, got)}
		case res.kind == "noexist":
			if online {
				q.note("key %q held by connection %d but the call returned ErrNotExistKey", key, h)
			}
			nxRecord(res.dur)
			if res.dur >= slowNoExist { // slow once is slowness; ask again, nothing else is running
				nxMu.Lock()
				nxSlow++
				nxMu.Unlock()
				again := call(q.s, key, 60000+i)
				if again.kind == "noexist" {
					nxRecord(again.dur)
				}
				if again.kind == "noexist" && again.dur >= slowNoExist {
					q.note("ErrNotExistKey for key %q only after %v, and after %v when asked again", key, res.dur, again.dur)
				}
			}
			return []string{fmt.Sprintf("n:%d", i)}
		}
		q.note("call for key %q: result %s, no connection received the command", key, res.kind)
		return []string{fmt.Sprintf("?:%d:%s", i, res.kind)}
	}
	return nil
}

// finish ends what is still open (the shared server's registry is empty again afterwards), reports
// callbacks nobody asked for and checks that every connection's callbacks are one legal life.
func (q *seqRun) finish() []string {
	var extra []string
	for c, r := range q.conns {
		if !r.closed {
			endConn(q.s, r, c, "s")
		}
	}
	for c, r := range q.conns {
		evs := q.s.Rec.Events(r.idx)
		for _, e := range evs[r.evSeen:] {
			extra = append(extra, "extra-"+evTok(c, e))
		}
		r.evSeen = len(evs)
		if msg := lifeShape(evs); msg != "" {
			q.note("connection %d callbacks: %s", c, msg)
		}
	}
	return extra
}

// lifeShape: invalid* then (join ok k, leave k | join exist, leave "" | leave ""), nothing else.
func lifeShape(evs []Ev) string {
	i := 0
	for i < len(evs) && evs[i].Kind == "join" && evs[i].Err == "invalid" {
		i++
	}
	rest := evs[i:]
	desc := func() string {
		var s []string
		for _, e := range evs {
			s = append(s, e.Kind+"("+e.Key+","+e.Err+")")
		}
		return strings.Join(s, " ")
	}
	switch {
	case len(rest) == 1 && rest[0].Kind == "leave" && rest[0].Key == "":
	case len(rest) == 2 && rest[0].Kind == "join" && rest[0].Err == "" && rest[1].Kind == "leave" && rest[1].Key == rest[0].Key:
	case len(rest) == 2 && rest[0].Kind == "join" && rest[0].Err == "exist" && rest[1].Kind == "leave" && rest[1].Key == "":
	default:
		return "[" + desc() + "]"
	}
	return ""
}

// opResult is what the child reports for one script / scenario.
type opResult struct {
	Req      string   `json:"req"`   // the oracle request (what the model is asked)
	Ans      string   `json:"ans"`   // the implementation's answer to it
	Notes    []string `json:"notes"` // direct-oracle complaints
	Counts   []string `json:"counts"`
	NT       bool     `json:"nt"`
	Stalled  string   `json:"stalled"`
	EmptyKey bool     `json:"emptykey"`
	// cumulative latency statistics of manager ErrNotExistKey answers in this child
	NxMax   int64    `json:"nxmax"`
	NxCount int64    `json:"nxcount"`
	NxHist  [5]int64 `json:"nxhist"`
	NxSlow  int64    `json:"nxslow"`
}

func guard(res *opResult, f func()) {
	defer func() {
		if x := recover(); x != nil {
			if st, ok := x.(stall); ok {
				res.Stalled = st.what
				return
			}
			panic(x)
		}
	}()
	f()
}

func seqResult(toks, obs []string, q *seqRun, emptyKey bool, what string) opResult {
	res := opResult{Req: "regseq " + strings.Join(toks, " "), Ans: "ok", Notes: q.notes, EmptyKey: emptyKey}
	dup, rejoin, send := false, false, false
	left := map[string]bool{}
	for _, o := range obs {
		res.Ans += " " + o
		p := strings.Split(o, ":")
		switch {
		case p[0] == "j" && len(p) == 4 && p[3] == "1":
			dup = true
		case p[0] == "l" && len(p) == 3:
			left[p[2]] = true
		case p[0] == "j" && len(p) == 4 && p[3] == "0" && left[p[2]]:
			rejoin = true
		case p[0] == "r" || p[0] == "n":
			send = true
		}
	}
	res.NT = dup || rejoin || send
	res.Counts = append(res.Counts, what+":ops="+strconv.Itoa(len(toks)/8*8)+"+")
	if dup {
		res.Counts = append(res.Counts, "seq:duplicate-refused")
	}
	if rejoin {
		res.Counts = append(res.Counts, "seq:rejoin-after-leave")
	}
	if emptyKey {
		res.Counts = append(res.Counts, "seq:with-empty-key")
	}
	return res
}

func runSeq(toks []string) (res opResult) {
	guard(&res, func() {
		q := newSeqRun()
		var obs []string
		empty := false
		for _, t := range toks {
			obs = append(obs, q.exec(t)...)
			if (strings.HasPrefix(t, "f:") || strings.HasPrefix(t, "ff:")) && strings.HasSuffix(t, ":0") {
				empty = true
			}
		}
		obs = append(obs, q.finish()...)
		res = seqResult(toks, obs, q, empty, "corpus")
	})
	if res.Req == "" {
		res.Req = "regseq " + strings.Join(toks, " ")
	}
	return res
}

// runAdapt: a random script generated while it runs (a refused connection is ended at once, as in the
// code, where the reader of a refused connection returns immediately).
func runAdapt(seed int64, steps, nk int, emptyKey bool) (res opResult) {
	var toks []string
	guard(&res, func() {
		rng := rand.New(rand.NewSource(seed))
		q := newSeqRun()
		var obs []string
		do := func(t string) []string {
			toks = append(toks, t)
			o := q.exec(t)
			obs = append(obs, o...)
			return o
		}
		stops := []string{"s", "s", "s", "sc", "sr"}
		for i := 0; i < steps; i++ {
			nc := len(q.conns)
			key := 1 + rng.Intn(nk)
			if emptyKey && rng.Intn(3) == 0 {
				key = 0
			}
			x := rng.Intn(100)
			switch {
			case nc == 0 || (x < 18 && nc < 6):
				do("c")
			case x < 50:
				cn := rng.Intn(nc)
				ftok := "f"
				if rng.Intn(4) == 0 {
					ftok = "ff" // the first handled message is a sub-package fragment
				}
				o := do(fmt.Sprintf("%s:%d:%d", ftok, cn, key))
				if len(o) == 1 && strings.HasSuffix(o[0], ":1") {
					do(fmt.Sprintf("s:%d", cn))
				}
			case x < 56:
				do(fmt.Sprintf("b:%d", rng.Intn(nc)))
			case x < 64:
				do(fmt.Sprintf("m:%d", rng.Intn(nc)))
			case x < 80:
				do(fmt.Sprintf("%s:%d", stops[rng.Intn(len(stops))], rng.Intn(nc)))
			default:
				do(fmt.Sprintf("w:%d", key))
			}
		}
		obs = append(obs, q.finish()...)
		res = seqResult(toks, obs, q, emptyKey, "random")
	})
	if res.Req == "" {
		res.Req = "regseq " + strings.Join(toks, " ") + " (stalled here)"
	}
	return res
}

// ---------------------------------------------------------------- concurrent scenarios

type hop struct {
	tok       string
	inv, resp int64 // nanoseconds since the start of the scenario
	obs       string
}

// life of one connection as the scenario itself knows it (for the direct oracle)
type window struct {
	key          string
	ok, refused  bool
	fInv, fResp  int64 // the joining first message: sent, outcome seen
	sInv, sResp  int64 // the end: initiated, leave callback seen
	done, closed bool  // closed: a refused connection was closed by the server
}

// burst > 0: the backlog scenario - connection 0 joins key 1, floods the server with `burst` heartbeats in ONE
// write (msgChan holds 10: its writer is busy answering them), then every caller fires at key 1 at once (the
// connection's command queue holds 3, the manager blocks on it) and the terminal disappears a moment later:
// commands queued, commands in the manager's hand and the teardown race.
func runConc(seed int64, nconn, nkeys, ncallers int, burst int) (res opResult) {
	s := server()
	rng := rand.New(rand.NewSource(seed))
	klo := 1 // one scenario in six also uses key 0 = the empty string (a KeyFunc may yield it)
	if rng.Intn(6) == 0 {
		klo = 0
	}
	var mu sync.Mutex
	var hist []hop
	var notes []string
	stalled := ""
	t0 := time.Now()
	now := func() int64 { return time.Since(t0).Nanoseconds() }
	add := func(h hop) { mu.Lock(); hist = append(hist, h); mu.Unlock() }
	note := func(f string, a ...any) { mu.Lock(); notes = append(notes, fmt.Sprintf(f, a...)); mu.Unlock() }
	guarded := func(f func()) {
		defer func() {
			if x := recover(); x != nil {
				if st, ok := x.(stall); ok {
					mu.Lock()
					if stalled == "" {
						stalled = st.what
					}
					mu.Unlock()
					return
				}
				panic(x)
			}
		}()
		f()
	}
	var conns []*regTerm
	var wins []*window
	connect := func() (int, *regTerm, *window) {
		var c int
		r, a, b := dial(s, now) // serialised: the model's connection index is the accept order
		mu.Lock()
		c = len(conns)
		conns = append(conns, r)
		w := &window{}
		wins = append(wins, w)
		hist = append(hist, hop{tok: "c", inv: a, resp: b, obs: "-"})
		mu.Unlock()
		return c, r, w
	}
	type plan struct {
		key             int
		d1, d2          time.Duration
		bad, join, more bool
		frag            bool
		stop            string
		again           bool
	}
	stops := []string{"s", "s", "sc", "sr"}
	goCh := make(chan struct{}) // burst: closed when connection 0 has joined and flooded
	var goOnce sync.Once
	fire := func() { goOnce.Do(func() { close(goCh) }) }
	if burst == 0 {
		fire()
	}
	mkplan := func(key int) plan {
		if burst > 0 {
			return plan{key: 1, d2: time.Duration(rng.Intn(500)) * time.Microsecond, join: true,
				stop: []string{"sr", "sc", "s"}[rng.Intn(3)]}
		}
		return plan{key: key, d1: time.Duration(rng.Intn(1200)) * time.Microsecond,
			d2: time.Duration(rng.Intn(2000)) * time.Microsecond, bad: rng.Intn(6) == 0, join: rng.Intn(8) != 0,
			more: rng.Intn(2) == 0, frag: rng.Intn(4) == 0, stop: stops[rng.Intn(len(stops))], again: rng.Intn(3) == 0}
	}
	type job struct {
		c int
		r *regTerm
		w *window
		p plan
	}
	var jobs []job
	guarded(func() {
		for i := 0; i < nconn; i++ {
			c, r, w := connect()
			jobs = append(jobs, job{c, r, w, mkplan(klo + rng.Intn(nkeys-klo+1))})
		}
	})
	// second lives are planned up front so that the plan does not depend on the schedule
	second := make([]plan, len(jobs))
	for i := range second {
		second[i] = mkplan(jobs[i].p.key)
		second[i].again = false
	}
	type cplan struct {
		key int
		d   time.Duration
	}
	cplans := make([]cplan, ncallers)
	for i := range cplans {
		cplans[i] = cplan{key: klo + rng.Intn(nkeys-klo+1), d: time.Duration(rng.Intn(4000)) * time.Microsecond}
	}
	life := func(c int, r *regTerm, w *window, p plan) {
		time.Sleep(p.d1)
		if p.bad {
			a := now()
			phone := "99" + strconv.Itoa(c)
			r.setPhone(phone)
			r.heartbeat(phone, fmt.Sprintf("invalid-key message of connection %d neither answered nor closed", c))
			o := take(s, r, c, false)
			add(hop{tok: fmt.Sprintf("b:%d", c), inv: a, resp: now(), obs: o})
		}
		if p.join {
			a := now()
			phone := phoneOfKey(p.key)
			r.setPhone(phone)
			first, ftok := r.heartbeat, "f"
			if p.frag {
				first, ftok = r.fragmented, "ff"
			}
			answered := first(phone, fmt.Sprintf("first message of connection %d neither answered nor refused", c))
			o := take(s, r, c, false)
			b := now()
			add(hop{tok: fmt.Sprintf("%s:%d:%d", ftok, c, p.key), inv: a, resp: b, obs: o})
			mu.Lock()
			w.key, _ = keyOf(phone)
			w.fInv, w.fResp = a, b
			switch {
			case strings.HasPrefix(o, "j:") && strings.HasSuffix(o, ":0"):
				w.ok = true
			case strings.HasPrefix(o, "j:") && strings.HasSuffix(o, ":1"):
				w.refused = true
				w.closed = !answered
			}
			mu.Unlock()
			if w.ok && !answered {
				note("connection %d joined key %q but the server closed it", c, phone)
			}
		}
		if burst > 0 && c == 0 {
			if r.joined && !r.isEOF() {
				var flood []byte
				for k := 0; k < burst; k++ {
					flood = append(flood, TFrame(0x0002, r.phone, r.t.NextSerial(), nil)...)
				}
				r.t.SendRaw(flood)
			}
			fire()
		}
		if p.more && r.joined && !r.isEOF() {
			time.Sleep(p.d2 / 2)
			a := now()
			if !r.heartbeat(r.phone, fmt.Sprintf("joined connection %d: heartbeat neither answered nor closed", c)) {
				note("joined connection %d no longer answers heartbeats (closed by the server)", c)
			}
			add(hop{tok: fmt.Sprintf("m:%d", c), inv: a, resp: now(), obs: "-"})
		}
		time.Sleep(p.d2)
		a := now()
		if w.refused {
			a = w.fInv // the reader of a refused connection leaves by itself, any time after the message was sent
		}
		o := endConn(s, r, c, p.stop)
		b := now()
		mu.Lock()
		w.sInv, w.sResp, w.done = a, b, true
		mu.Unlock()
		add(hop{tok: fmt.Sprintf("%s:%d", p.stop, c), inv: a, resp: b, obs: o})
	}
	var wg sync.WaitGroup
	for i, j := range jobs {
		wg.Add(1)
		go func(i int, j job) {
			defer wg.Done()
			guarded(func() {
				life(j.c, j.r, j.w, j.p)
				if j.p.again { // reconnect: a new connection asks for the same key
					c, r, w := connect()
					life(c, r, w, second[i])
				}
			})
		}(i, j)
	}
	type sendRec struct {
		key       string
		knum      int
		inv, resp int64
		kind      string
		dur       time.Duration
		done      bool
	}
	sends := make([]sendRec, ncallers)
	for i := range cplans {
		wg.Add(1)
		go func(i int) {
			defer wg.Done()
			guarded(func() {
				p := cplans[i]
				if burst > 0 {
					p.key, p.d = 1, time.Duration(i%4)*40*time.Microsecond
					select {
					case <-goCh:
					case <-time.After(stallAfter):
					}
				}
				time.Sleep(p.d)
				key, _ := keyOf(phoneOfKey(p.key))
				a := now()
				r := call(s, key, i)
				sends[i] = sendRec{key: key, knum: p.key, inv: a, resp: now(), kind: r.kind, dur: r.dur, done: true}
			})
		}(i)
	}
	wg.Wait()
	dup := false
	if stalled == "" {
		for i, sr := range sends {
			if !sr.done {
				continue
			}
			got := recvBy(conns, i)
			obs := ""
			switch {
			case got == -2:
				note("command of caller %d for key %q was written to more than one connection", i, sr.key)
				obs = "?several"
			case got >= 0:
				obs = fmt.Sprintf("r:*:%d", got)
				w := wins[got]
				if !w.ok || w.key != sr.key {
					note("command for key %q was written to connection %d which never joined with it", sr.key, got)
				} else if sr.inv > w.sResp || sr.resp < w.fInv {
					note("command for key %q [%d,%d] written to connection %d outside its life [%d,%d]", sr.key, sr.inv, sr.resp, got, w.fInv, w.sResp)
				}
			case sr.kind == "noexist": // the manager found no session
				obs = "n:*"
				for c, w := range wins {
					if w.ok && w.done && w.key == sr.key && w.fResp < sr.inv && sr.resp < w.sInv {
						note("key %q was held by connection %d during the whole call [%d,%d] but it returned ErrNotExistKey", sr.key, c, sr.inv, sr.resp)
					}
				}
				nxRecord(sr.dur)
				// "at once": an answer that waited for the command's timer would take cmdTimeout (20 s); half of
				// that is unambiguous.  One slow answer is slowness: the call is repeated now (everything of this
				// scenario has ended, the key is not online) and only two slow answers are reported.
				if sr.dur >= cmdTimeout/2 {
					nxMu.Lock()
					nxSlow++
					nxMu.Unlock()
					again := call(s, sr.key, 50000+i)
					if again.kind == "noexist" {
						nxRecord(again.dur)
						if again.dur >= cmdTimeout/2 {
							note("ErrNotExistKey for key %q only after %v, and after %v when asked again (a command's own timeout is %v)", sr.key, sr.dur, again.dur, cmdTimeout)
						}
					}
				}
			case sr.kind == "stopped" || sr.kind == "wfail" || sr.kind == "timeout":
				// handed to a connection that ended before its terminal read the command
				obs = "r:*:*"
				possible := false
				for _, w := range wins {
					if w.ok && w.key == sr.key && !(sr.inv > w.sResp || sr.resp < w.fInv) {
						possible = true
					}
				}
				if !possible {
					note("call for key %q returned %s although no connection held the key at any time during the call", sr.key, sr.kind)
				}
			default:
				note("caller for key %q got %s and no connection received the command", sr.key, sr.kind)
				obs = "?" + sr.kind
			}
			add(hop{tok: fmt.Sprintf("w:%d", sr.knum), inv: sr.inv, resp: sr.resp, obs: obs})
		}
		// two connections certainly holding the same key at the same time
		for a := 0; a < len(wins); a++ {
			for b := a + 1; b < len(wins); b++ {
				wa, wb := wins[a], wins[b]
				if wa.ok && wb.ok && wa.done && wb.done && wa.key == wb.key && wa.fResp < wb.sInv && wb.fResp < wa.sInv {
					note("connections %d and %d both held key %q during [%d,%d]", a, b, wa.key, max64(wa.fResp, wb.fResp), min64(wa.sInv, wb.sInv))
				}
			}
		}
		for c, w := range wins {
			if !w.refused {
				continue
			}
			dup = true
			if !w.closed {
				note("refused connection %d was answered instead of closed", c)
			}
			possible := false
			for c2, w2 := range wins {
				if c2 != c && w2.ok && w2.key == w.key && w2.fInv <= w.fResp && (!w2.done || w.fInv <= w2.sResp) {
					possible = true
				}
			}
			if !possible {
				note("connection %d refused for key %q although no connection could hold it during [%d,%d]", c, w.key, w.fInv, w.fResp)
			}
		}
		for c, r := range conns {
			evs := s.Rec.Events(r.idx)
			if msg := lifeShape(evs); msg != "" {
				note("connection %d callbacks: %s", c, msg)
			}
			for _, e := range evs[r.evSeen:] {
				add(hop{tok: "extra", inv: now(), resp: now(), obs: "extra-" + evTok(c, e)})
			}
		}
	} else {
		// leave the shared server as clean as possible (the parent restarts the child anyway)
		for _, r := range conns {
			r.t.Close()
		}
	}
	sort.SliceStable(hist, func(i, j int) bool { return hist[i].inv < hist[j].inv })
	var items []string
	for _, h := range hist {
		o := h.obs
		if o == "" {
			o = "-"
		}
		items = append(items, fmt.Sprintf("%s@%d-%d=%s", h.tok, h.inv, h.resp, o))
	}
	res = opResult{Req: "reglin " + strings.Join(items, " "), Ans: "lin ok", Notes: notes, Stalled: stalled,
		NT: dup || ncallers > 0}
	res.Counts = append(res.Counts, fmt.Sprintf("conc:conns=%d", len(conns)))
	if dup {
		res.Counts = append(res.Counts, "conc:duplicate-refused")
	}
	for _, sr := range sends {
		if sr.done {
			res.Counts = append(res.Counts, "conc:send-"+sr.kind)
		}
	}
	return res
}

// ---------------------------------------------------------------- the manager stalled during a join
//
// runStall: terminal 0 joins key 1; its application write callback then blocks for 4 s (a slow user callback in the
// writer goroutine); four commands for key 1 are fired: three fill the connection's command queue, the fourth blocks
// the MANAGER on it.  While the manager is stalled terminal 1 sends its first message (key 2): its join closure waits
// in the manager's queue for about 4 s.  Then everything resumes.  Expected (the model, through the same
// linearisation check): terminal 1 joins once; afterwards key 2 is routed to it, freed by its end, taken again by a
// new connection, not online at the end.  Takes about 5 s: one per quick run.
var (
	stallMu    sync.Mutex
	stallPhone string // the write callback blocks once for a message of this terminal
)

func runStall(seed int64) (res opResult) {
	s := server()
	var mu sync.Mutex
	var hist []hop
	var notes []string
	t0 := time.Now()
	now := func() int64 { return time.Since(t0).Nanoseconds() }
	add := func(h hop) { mu.Lock(); hist = append(hist, h); mu.Unlock() }
	note := func(f string, a ...any) { mu.Lock(); notes = append(notes, fmt.Sprintf(f, a...)); mu.Unlock() }
	s.Rec.OnWrite = func(msg *service.Message) {
		if msg == nil || msg.JTMessage == nil || msg.JTMessage.Header == nil {
			return
		}
		stallMu.Lock()
		hit := stallPhone != "" && strings.TrimLeft(msg.JTMessage.Header.TerminalPhoneNo, "0") == stallPhone
		if hit {
			stallPhone = ""
		}
		stallMu.Unlock()
		if hit {
			time.Sleep(4 * time.Second)
		}
	}
	var conns []*regTerm
	guard(&res, func() {
		connect := func() (int, *regTerm) {
			r, a, b := dial(s, now)
			conns = append(conns, r)
			add(hop{tok: "c", inv: a, resp: b, obs: "-"})
			return len(conns) - 1, r
		}
		first := func(c int, r *regTerm, k int) string {
			a := now()
			phone := phoneOfKey(k)
			r.setPhone(phone)
			r.heartbeat(phone, fmt.Sprintf("first message of connection %d neither answered nor refused", c))
			o := take(s, r, c, false)
			add(hop{tok: fmt.Sprintf("f:%d:%d", c, k), inv: a, resp: now(), obs: o})
			return o
		}
		send := func(k, tag int) {
			key, _ := keyOf(phoneOfKey(k))
			a := now()
			r := call(s, key, tag)
			got := recvBy(conns, tag)
			obs := "?" + r.kind
			switch {
			case got >= 0:
				obs = fmt.Sprintf("r:*:%d", got)
			case r.kind == "noexist":
				obs = "n:*"
			case r.kind == "stopped" || r.kind == "wfail" || r.kind == "timeout":
				obs = "r:*:*"
			}
			add(hop{tok: fmt.Sprintf("w:%d", k), inv: a, resp: now(), obs: obs})
		}
		end := func(c int, r *regTerm) {
			a := now()
			o := endConn(s, r, c, "s")
			add(hop{tok: fmt.Sprintf("s:%d", c), inv: a, resp: now(), obs: o})
		}
		c0, r0 := connect()
		c1, r1 := connect()
		if o := first(c0, r0, 1); !strings.HasSuffix(o, ":0") {
			note("connection 0 did not join key 1: %s", o)
		}
		// arm the slow callback and trigger it: the answer to this heartbeat is written, then the callback sleeps 4 s
		stallMu.Lock()
		stallPhone = phoneOfKey(1)
		stallMu.Unlock()
		r0.heartbeat(phoneOfKey(1), "heartbeat of connection 0 not answered")
		var wg sync.WaitGroup
		for i := 0; i < 4; i++ { // 3 fill activeMsgChan, the 4th blocks the manager until the writer resumes
			wg.Add(1)
			go func(i int) {
				defer wg.Done()
				var sub opResult
				guard(&sub, func() { send(1, i) })
				if sub.Stalled != "" {
					note("stalled: %s", sub.Stalled)
				}
			}(i)
		}
		time.Sleep(300 * time.Millisecond) // let the four calls reach the manager (order among them does not matter)
		tj := time.Now()
		o := first(c1, r1, 2) // the manager is stalled: this join waits for it
		waited := time.Since(tj)
		if !strings.HasSuffix(o, ":0") {
			note("connection 1's first message during a manager stall of %v: %s (it must join key 2: nobody holds it)", waited.Round(time.Millisecond), o)
		}
		wg.Wait()
		// afterwards the registry behaves as the model says
		if !r1.isEOF() {
			a := now()
			if !r1.heartbeat(phoneOfKey(2), "heartbeat of connection 1 neither answered nor closed") {
				note("joined connection 1 no longer answers heartbeats (closed by the server)")
			}
			add(hop{tok: fmt.Sprintf("m:%d", c1), inv: a, resp: now(), obs: "-"})
		}
		send(2, 10)
		end(c1, r1)
		c2, r2 := connect()
		if o := first(c2, r2, 2); !strings.HasSuffix(o, ":0") {
			note("key 2 cannot be taken again after its connection ended: %s", o)
		}
		send(2, 11)
		end(c2, r2)
		end(c0, r0)
		send(2, 12)
		res.Counts = append(res.Counts, fmt.Sprintf("stall:join-waited-%ds", int(waited.Seconds())))
	})
	s.Rec.OnWrite = nil
	if res.Stalled != "" {
		for _, r := range conns {
			r.t.Close()
		}
	}
	for c, r := range conns {
		if res.Stalled == "" {
			if msg := lifeShape(s.Rec.Events(r.idx)); msg != "" {
				note("connection %d callbacks: %s", c, msg)
			}
		}
	}
	sort.SliceStable(hist, func(i, j int) bool { return hist[i].inv < hist[j].inv })
	var items []string
	for _, h := range hist {
		o := h.obs
		if o == "" {
			o = "-"
		}
		items = append(items, fmt.Sprintf("%s@%d-%d=%s", h.tok, h.inv, h.resp, o))
	}
	res.Req, res.Ans, res.Notes, res.NT = "reglin "+strings.Join(items, " "), "lin ok", notes, true
	res.Counts = append(res.Counts, "conc:manager-stalled-during-join")
	return res
}

func max64(a, b int64) int64 {
	if a > b {
		return a
	}
	return b
}
func min64(a, b int64) int64 {
	if a < b {
		return a
	}
	return b
}

// ---------------------------------------------------------------- ops

func atoi(s string) int { v, _ := strconv.Atoi(s); return v }

func jsonOf(r opResult) string {
	nxMu.Lock()
	r.NxMax, r.NxCount, r.NxHist, r.NxSlow = nxMax, nxCount, nxHist, nxSlow
	nxMu.Unlock()
	b, _ := json.Marshal(r)
	return string(b)
}

func textOf(r opResult) string {
	out := r.Ans
	if strings.HasPrefix(r.Req, "reglin") {
		out = "history: " + r.Req
	}
	if r.Stalled != "" {
		out += " !! STALLED: " + r.Stalled
	}
	if len(r.Notes) > 0 {
		out += " !! " + strings.Join(r.Notes, "; ")
	}
	return out
}

func adaptArgs(a []string) (int64, int, int, bool) {
	seed, _ := strconv.ParseInt(a[0], 10, 64)
	return seed, atoi(a[1]), atoi(a[2]), a[3] == "1"
}

func main() {
	// human / replay forms
	RegisterOp("regseq", func(a []string) string { return textOf(runSeq(a)) })
	RegisterOp("regadapt", func(a []string) string { // regadapt <seed> <steps> <nkeys> <emptykey 0|1>
		r := runAdapt(adaptArgs(a))
		return r.Req + " => " + textOf(r)
	})
	RegisterOp("regconc", func(a []string) string { // regconc <seed> <nconn> <nkeys> <ncallers> [<burst>]
		seed, _ := strconv.ParseInt(a[0], 10, 64)
		b := 0
		if len(a) > 4 {
			b = atoi(a[4])
		}
		return textOf(runConc(seed, atoi(a[1]), atoi(a[2]), atoi(a[3]), b))
	})
	// the same for the parent (JSON)
	RegisterOp("regstall", func(a []string) string { // regstall <seed>: the manager stalled for 4 s during a join
		seed, _ := strconv.ParseInt(a[0], 10, 64)
		return textOf(runStall(seed))
	})
	RegisterOp("xstall", func(a []string) string {
		seed, _ := strconv.ParseInt(a[0], 10, 64)
		return jsonOf(runStall(seed))
	})
	RegisterOp("xseq", func(a []string) string { return jsonOf(runSeq(a)) })
	RegisterOp("xadapt", func(a []string) string { return jsonOf(runAdapt(adaptArgs(a))) })
	RegisterOp("xconc", func(a []string) string {
		seed, _ := strconv.ParseInt(a[0], 10, 64)
		b := 0
		if len(a) > 4 {
			b = atoi(a[4])
		}
		return jsonOf(runConc(seed, atoi(a[1]), atoi(a[2]), atoi(a[3]), b))
	})
	if ChildMode() {
		ServeOps()
		return
	}
	Main("C11", c11)
}

// ---------------------------------------------------------------- parent

type parent struct {
	c     *Ctx
	bin   string
	env   []string
	ch    *Child
	fatal int
	// ErrNotExistKey latency: totals of finished children + the running child's cumulative numbers
	nxDoneCount, nxDoneMax, nxDoneSlow int64
	nxDoneHist             [5]int64
	nxCur                  opResult
}

func (p *parent) nxRoll() { // the current child is gone: bank its numbers
	p.nxDoneCount += p.nxCur.NxCount
	p.nxDoneSlow += p.nxCur.NxSlow
	if p.nxCur.NxMax > p.nxDoneMax {
		p.nxDoneMax = p.nxCur.NxMax
	}
	for i := range p.nxDoneHist {
		p.nxDoneHist[i] += p.nxCur.NxHist[i]
	}
	p.nxCur = opResult{}
}

func (p *parent) child() *Child {
	if p.ch == nil || p.ch.Dead {
		p.nxRoll()
		ch, err := StartChild(p.bin, p.env, 1<<16)
		if err != nil {
			panic(err)
		}
		p.ch = ch
	}
	return p.ch
}

func replayForm(req string) string {
	switch {
	case strings.HasPrefix(req, "xseq "):
		return "regseq " + req[5:]
	case strings.HasPrefix(req, "xadapt "):
		return "regadapt " + req[7:]
	case strings.HasPrefix(req, "xconc "):
		return "regconc " + req[6:]
	case strings.HasPrefix(req, "xstall "):
		return "regstall " + req[7:]
	}
	return req
}

func panicHead(stderr string) string {
	for _, mark := range []string{"panic:", "fatal error:"} {
		if i := strings.Index(stderr, mark); i >= 0 {
			return Trunc(strings.Join(strings.Fields(stderr[i:]), " "), 900)
		}
	}
	return Trunc(strings.Join(strings.Fields(stderr), " "), 900)
}

// run executes one request in the child.  A crash is reported at once; a stall (a bounded wait
// expired) is reported only when the same request stalls or crashes again in a fresh server.
func (p *parent) run(req string) *opResult {
	c := p.c
	for attempt := 0; attempt < 2; attempt++ {
		ch := p.child()
		ans, st := ch.Ask(req, 4*(cmdTimeout+stallAfter))
		var res opResult
		problem := ""
		switch st {
		case "ok":
			if err := json.Unmarshal([]byte(ans), &res); err != nil {
				panic("child answered " + Trunc(ans, 300))
			}
			p.nxCur = res
			if res.Stalled == "" {
				return &res
			}
			problem = "stalled: " + res.Stalled
		case "crash":
			p.fatal++
			c.Violate(Violation{Signature: "C11/crash", What: "the server process died while the script ran",
				Input: replayForm(req), Observed: panicHead(ch.Stderr()), Required: "no interleaving of joins, leaves and sends crashes the server; " + required})
			c.Count("fatal:crash")
			return nil
		case "hang":
			problem = "the child did not answer"
		}
		ch.Kill()
		if attempt == 0 {
			c.Count("stall:first-occurrence")
			continue
		}
		p.fatal++
		c.Violate(Violation{Signature: "C11/stalled", What: "an operation did not complete (twice, in two fresh servers)",
			Input: replayForm(req), Observed: problem + " | " + Trunc(res.Req, 1200), Required: "every join, leave and send completes; " + required})
		c.Count("fatal:stalled")
		return nil
	}
	return nil
}

func noteClass(n string) string {
	switch {
	case strings.Contains(n, "both held"), strings.Contains(n, "while connection"):
		return "two-owners"
	case strings.Contains(n, "during a manager stall"), strings.Contains(n, "cannot be taken again"):
		return "join-during-stall"
	case strings.Contains(n, "refused"):
		return "refusal"
	case strings.Contains(n, "callbacks"), strings.Contains(n, "leave callback"):
		return "callbacks"
	case strings.Contains(n, "ErrNotExistKey"):
		return "not-exist"
	case strings.Contains(n, "heartbeats"), strings.Contains(n, "but the server closed it"):
		return "owner-disturbed"
	}
	return "routing"
}

func (p *parent) record(res *opResult, input string) {
	c := p.c
	if res == nil {
		return
	}
	c.Case(res.Req, res.Ans, res.NT)
	for _, k := range res.Counts {
		c.Count(k)
	}
	for _, note := range res.Notes {
		obs := note + " | " + Trunc(res.Req, 1500)
		if strings.HasPrefix(res.Req, "regseq") {
			obs = note + " | observations: " + res.Ans
		}
		c.Violate(Violation{Signature: "C11/" + noteClass(note), What: "registry property violated", Input: input,
			Observed: obs, Required: required})
	}
}

func c11(c *Ctx) {
	c.Rule = "sequential scripts (regseq): random operation lists over <=6 connections, keys {1,2,3} plus the empty key and invalid keys, connection ends by FIN / close / RST, executed one operation at a time on a live server, observations compared token by token with the model; concurrent scenarios (reglin): 2..8 connections (a third reconnect with the same key) x 1..3 keys x 0..4 callers with random timing on a server built with random delays at the channel operations of connection.go, the recorded history must have a real-time-consistent linearisation that the model explains; a case is non-trivial when it contains a duplicate-key connect, a leave followed by a re-join, or a send; distinct = distinct request lines"
	rng := c.Rng
	nseq, nconc := 700, 900
	if !c.Quick() {
		nseq, nconc = 12000, 20000
	}
	// a server VALUE that is not serving: New() without Run(), and Run() that could not bind its address.  No key is
	// online there, so a command must be answered ErrNotExistKey promptly (the session manager answers, whatever the
	// listener does) - in-process, a blocked call is abandoned after 3 s and reported
	for _, mode := range []string{"new-without-run", "run-address-in-use"} {
		opts := []service.Option{service.WithHostPorts("127.0.0.1:1")}
		var hold net.Listener
		if mode == "run-address-in-use" {
			hold, _ = net.Listen("tcp", "127.0.0.1:0")
			if hold != nil {
				opts = []service.Option{service.WithHostPorts(hold.Addr().String())}
			}
		}
		g := service.New(opts...)
		if mode == "run-address-in-use" {
			go g.Run()
			time.Sleep(150 * time.Millisecond)
		}
		ch := make(chan string, 1)
		go func() {
			m := g.SendActiveMessage(service.NewActiveMessage("01", consts.JT808CommandType(cmdID), []byte{1, 0, 0, 0}, cmdTimeout))
			switch {
			case m == nil:
				ch <- "nil message"
			case errors.Is(m.ExtensionFields.Err, service.ErrNotExistKey):
				ch <- "noexist"
			default:
				ch <- fmt.Sprintf("other: %v", m.ExtensionFields.Err)
			}
		}()
		got := "blocked for 3 s (abandoned)"
		select {
		case got = <-ch:
		case <-time.After(3 * time.Second):
		}
		c.Eval("notserving "+mode, true)
		c.Count("notserving:" + mode + ":" + strings.Fields(got)[0])
		if got != "noexist" {
			c.Violate(Violation{Signature: "C11/not-serving", What: "a command to a server value that is not serving (" + mode + ")",
				Input: "notserving " + mode, Observed: got, Required: "ErrNotExistKey at once: no key is online"})
		}
		if hold != nil {
			hold.Close()
		}
	}
	p := &parent{c: c}
	// the child: this harness command rebuilt with the delay overlay (random Gosched/Sleep before every
	// channel operation, close, join/leave call and socket write of connection.go)
	outAbs, _ := filepath.Abs(c.Out)
	bin, sites, err := BuildChildLines("C11", outAbs, "c11child", false)
	if err != nil {
		self, _ := os.Executable()
		bin = self
		c.Count("child:without-delay-overlay")
		c.Extra["overlay_error"] = Trunc(err.Error(), 600)
	} else {
		c.Extra["delay_sites"] = len(sites)
	}
	p.bin = bin
	p.env = []string{fmt.Sprintf("VERIF_DELAY_SEED=%d", c.Seed), "VERIF_DELAY_US=120", "VERIF_DELAY_P=25"}
	defer func() {
		if p.ch != nil {
			p.ch.Stop(10 * time.Second)
		}
	}()
	// ---- fixed corpus of sequential scripts (the shapes the property names)
	corpus := []string{
		"c c f:0:7 f:1:7 s:1 w:7 m:0 s:0 w:7",            // duplicate refused, first keeps working, then leaves
		"c f:0:7 s:0 c f:1:7 w:7 s:1",                     // rejoin after leave
		"c c f:0:1 f:1:2 s:0 w:1 w:2 s:1 w:2",             // leave frees only its own key
		"c s:0 c b:1 b:1 f:1:3 m:1 w:3 s:1",               // never joined; invalid keys then join
		"c c c f:0:5 f:1:5 s:1 f:2:5 s:2 s:0 w:5",         // two refusals
		"c c f:0:0 s:1 w:0 s:0",                           // the empty key: the never-joined connection evicts it (model and code agree)
		"w:9 c f:0:9 w:9 m:0 f:0:4 w:4 w:9 s:0 w:9",       // message with another phone on a joined connection
		"c c f:0:3 f:1:3 s:1 sc:0 c f:2:3 w:3 sr:2 w:3",   // close and reset endings
		"c c c f:0:1 f:1:2 f:2:1 s:2 w:1 w:2 s:1 w:1 w:2", // refusal between two owners
		"c c ff:0:6 w:6 ff:1:6 s:1 ff:0:6 w:6 s:0 w:6",    // the first handled message is a sub-package fragment: joins, is announced, refuses the duplicate
		"c c f:0:0 s:1 w:0 m:0 c ff:2:0 s:2 s:0 w:0",      // the empty key is a key like any other (fix 8f7d690)
	}
	for _, line := range corpus {
		req := "xseq " + line
		p.record(p.run(req), replayForm(req))
	}
	// ---- random sequential scripts
	for n := 0; n < nseq && p.fatal < 3; n++ {
		empty := 0
		if rng.Intn(12) == 0 {
			empty = 1
		}
		req := fmt.Sprintf("xadapt %d %d %d %d", rng.Int63n(1<<40), 4+rng.Intn(22), 1+rng.Intn(3), empty)
		res := p.run(req)
		if res != nil {
			p.record(res, res.Req) // the script as it was generated is its own replay
		}
	}
	// ---- the manager stalled for 4 s while a connection joins (5 s each: one per quick run)
	nstall := 1
	if !c.Quick() {
		nstall = 12
	}
	for n := 0; n < nstall && p.fatal < 3; n++ {
		req := fmt.Sprintf("xstall %d", rng.Int63n(1<<30))
		p.record(p.run(req), replayForm(req))
	}
	// ---- concurrent scenarios
	for n := 0; n < nconc && p.fatal < 3; n++ {
		nconn, nkeys, ncallers := 2+rng.Intn(7), 1+rng.Intn(3), rng.Intn(5)
		if nconn+ncallers > 10 {
			ncallers = 10 - nconn
		}
		req := fmt.Sprintf("xconc %d %d %d %d", rng.Int63n(1<<40), nconn, nkeys, ncallers)
		if n%6 == 5 { // the backlog scenario: 1..2 connections, 6..12 callers on one key, a flood, an abrupt end
			req = fmt.Sprintf("xconc %d %d 1 %d %d", rng.Int63n(1<<40), 1+rng.Intn(2), 6+rng.Intn(7), 20+rng.Intn(280))
			c.Count("conc:backlog-scenario")
		}
		p.record(p.run(req), replayForm(req))
	}
	if p.fatal >= 3 {
		c.Count("aborted-after-3-fatal")
	}
	// ---- thorough tier only: the concurrent scenarios once more in a child built WITH the race detector (the
	// quick-tier child is built without it: races are C18's business, whose detector child re-implements these
	// shapes).  A detector report with a frame of the library is reported here as well.
	if !c.Quick() && p.fatal < 3 {
		if rbin, _, err := BuildChildLines("C11", outAbs, "c11race", true); err != nil {
			c.Count("race-child:setup-failed")
		} else {
			logp := filepath.Join(outAbs, "c11race-log")
			rp := &parent{c: c, bin: rbin, env: append([]string{"GORACE=log_path=" + logp + " halt_on_error=0"}, p.env...)}
			for n := 0; n < 1500 && rp.fatal < 3; n++ {
				nconn, nkeys, ncallers := 2+rng.Intn(7), 1+rng.Intn(3), rng.Intn(5)
				if nconn+ncallers > 10 {
					ncallers = 10 - nconn
				}
				req := fmt.Sprintf("xconc %d %d %d %d", rng.Int63n(1<<40), nconn, nkeys, ncallers)
				if n%6 == 5 {
					req = fmt.Sprintf("xconc %d %d 1 %d %d", rng.Int63n(1<<40), 1+rng.Intn(2), 6+rng.Intn(7), 20+rng.Intn(280))
				}
				rp.record(rp.run(req), replayForm(req))
				c.Count("conc:under-race-detector")
			}
			if rp.ch != nil {
				rp.ch.Stop(20 * time.Second)
			}
			files, _ := filepath.Glob(logp + ".*")
			for _, f := range files {
				b, _ := os.ReadFile(f)
				txt := string(b)
				if i := strings.Index(txt, "WARNING: DATA RACE"); i >= 0 && strings.Contains(txt, "go-jt808/service.") {
					c.Violate(Violation{Signature: "C11/race-report", What: "the Go race detector reported a data race while the registry scenarios ran",
						Input: "regconc (any; thorough tier, detector child)", Observed: Trunc(txt[i:], 3000),
						Required: "no data race in the library (property C18); " + required})
					break
				}
			}
		}
	}
	p.nxRoll()
	c.Extra["noexist_answers"] = p.nxDoneCount
	c.Extra["noexist_latency_us_max"] = p.nxDoneMax
	c.Extra["noexist_slow_answers_asked_again"] = p.nxDoneSlow
	if p.nxDoneSlow > 0 { // never a violation by itself, never silent either: bin/check prints a NOTE for this key
		c.Dist["noexist:slow_answers_asked_again"] += int(p.nxDoneSlow)
	}
	c.Extra["noexist_latency_hist_lt1ms_lt10ms_lt100ms_lt1s_ge1s"] = p.nxDoneHist
}

// C11 — session registry: at most one live connection per terminal key.
//
// Ties the model (coq/Model/Registry.v) to /repo over real loopback sockets:
//
//	regseq  sequential scripts: every operation completes before the next starts; the
//	        per-operation observations (OnJoinEvent/OnLeaveEvent, which socket received the
//	        command, ErrNotExistKey) are compared one by one with the model's run;
//	reglin  concurrent scripts: one goroutine per connection and per caller with random
//	        timing; the recorded history (operation, real-time interval, observation) is
//	        given to the oracle, which searches a linearisation the model explains.
//
// The direct oracle checks the property itself on the implementation: no two live owners of a
// key, a refused connection is closed and told so while the first keeps working, leave carries
// the connection's own key, a freed key can be taken again, commands go to the current owner,
// a key that is not online fails at once.
package main

import (
	"fmt"
	"math/rand"
	"sort"
	"strconv"
	"strings"
	"sync"
	"time"

	. "verifh/lib"
)

const cmdID = 0x9102

// keyFunc of the harness server: phone 99xxx -> invalid; phone 88 -> the empty key; else key = phone.
func keyOf(phone string) (string, bool) {
	if strings.HasPrefix(phone, "99") {
		return "", false
	}
	if phone == "88" {
		return "", true
	}
	return phone, true
}

func phoneOfKey(k int) string {
	if k == 0 {
		return "88"
	}
	return strconv.Itoa(k)
}

func keyNum(key string) string {
	if key == "" {
		return "0"
	}
	return key
}

var (
	srvOnce sync.Once
	srv     *Srv
)

func server() *Srv {
	srvOnce.Do(func() { srv = StartSrv(keyOf) })
	return srv
}

// regTerm: a terminal whose reader answers every platform command with a 0x0001 echo and counts them.
type regTerm struct {
	t       *Term
	idx     int // index of its eventer in the recorder
	mu      sync.Mutex
	cmds    int
	got     []byte // first body byte of every command received (names the caller in concurrent scripts)
	replies int
	eof     chan struct{}
	evSeen  int // callbacks already reported
	closed  bool
	phone   string // phone of the first message it sent
}

func newRegTerm(s *Srv) *regTerm {
	t, idx := s.Dial("1")
	r := &regTerm{t: t, idx: idx, eof: make(chan struct{})}
	go func() {
		defer close(r.eof)
		for f := range t.Frames {
			if f.Bad != "" {
				continue
			}
			if f.ID == 0x8001 {
				r.mu.Lock()
				r.replies++
				r.mu.Unlock()
				continue
			}
			r.mu.Lock()
			r.cmds++
			if len(f.Body) > 0 {
				r.got = append(r.got, f.Body[0])
			}
			ph := r.phone
			r.mu.Unlock()
			t.SendAs(ph, 0x0001, RespBody(0x0001, f.Serial, f.ID))
		}
	}()
	return r
}

func (r *regTerm) ncmds() int    { r.mu.Lock(); defer r.mu.Unlock(); return r.cmds }
func (r *regTerm) nreplies() int { r.mu.Lock(); defer r.mu.Unlock(); return r.replies }

// recvBy: the connection that received the command whose body starts with tag (-1 none, -2 several).
func recvBy(conns []*regTerm, tag byte) int {
	got := -1
	for j, r := range conns {
		r.mu.Lock()
		for _, b := range r.got {
			if b == tag {
				if got >= 0 {
					got = -2
				} else {
					got = j
				}
			}
		}
		r.mu.Unlock()
	}
	return got
}

func newRand(seed int64) *rand.Rand { return rand.New(rand.NewSource(seed)) }

func evTok(c int, e Ev) string {
	if e.Kind == "join" {
		code := map[string]string{"": "0", "exist": "1", "invalid": "2"}[e.Err]
		if code == "" {
			code = "9"
		}
		return fmt.Sprintf("j:%d:%s:%s", c, keyNum(e.Key), code)
	}
	return fmt.Sprintf("l:%d:%s", c, keyNum(e.Key))
}

// ---------------------------------------------------------------- sequential scripts

type seqRun struct {
	s     *Srv
	conns []*regTerm
	ncall int
	notes []string // direct-oracle complaints
	// what the script itself knows (literal bookkeeping for the direct oracle, not the model)
	holder map[string]int // key -> connection that joined ok and has not been stopped by the script
}

func newSeqRun() *seqRun { return &seqRun{s: server(), holder: map[string]int{}} }

func (q *seqRun) note(f string, a ...any) { q.notes = append(q.notes, fmt.Sprintf(f, a...)) }

// nextEvents waits for n more callbacks of connection c and returns them as tokens.
func (q *seqRun) nextEvents(c, n int, d time.Duration) []string {
	r := q.conns[c]
	evs, ok := q.s.Rec.WaitEvents(r.idx, r.evSeen+n, d)
	var out []string
	for _, e := range evs[r.evSeen:] {
		out = append(out, evTok(c, e))
	}
	r.evSeen = len(evs)
	if !ok {
		out = append(out, fmt.Sprintf("missing-callback:%d", c))
	}
	return out
}

func (q *seqRun) exec(tok string) []string {
	p := strings.Split(tok, ":")
	num := func(i int) int { n, _ := strconv.Atoi(p[i]); return n }
	switch p[0] {
	case "c":
		q.conns = append(q.conns, newRegTerm(q.s))
		return nil
	case "f", "b":
		c := num(1)
		if c >= len(q.conns) || q.conns[c].closed {
			return nil
		}
		r := q.conns[c]
		phone := "99" + strconv.Itoa(c)
		if p[0] == "f" {
			phone = phoneOfKey(num(2))
		}
		joined := false
		for _, e := range q.s.Rec.Events(r.idx) {
			if e.Kind == "join" && e.Err == "" {
				joined = true
			}
		}
		if joined { // a later message with whatever phone: no manager operation, connection must stay up
			before := r.nreplies()
			r.t.SendAs(phone, 0x0002, nil)
			waitUntil(2*time.Second, func() bool { return r.nreplies() > before })
			if r.nreplies() == before {
				q.note("joined connection %d no longer answers heartbeats", c)
			}
			return q.nextEvents(c, 0, 0)
		}
		r.mu.Lock()
		r.phone = phone
		r.mu.Unlock()
		r.t.SendAs(phone, 0x0002, nil)
		out := q.nextEvents(c, 1, 2*time.Second)
		if len(out) == 1 && p[0] == "f" {
			key, _ := keyOf(phone)
			switch {
			case strings.HasSuffix(out[0], ":0"):
				if h, ok := q.holder[key]; ok {
					q.note("connection %d joined key %q while connection %d still holds it", c, key, h)
				}
				q.holder[key] = c
			case strings.HasSuffix(out[0], ":1"):
				if _, ok := q.holder[key]; !ok {
					q.note("connection %d refused for key %q although no connection holds it", c, key)
				}
				select { // the refused connection must be closed by the server
				case <-r.eof:
				case <-time.After(2 * time.Second):
					q.note("refused connection %d was not closed", c)
				}
			}
		}
		return out
	case "m":
		c := num(1)
		if c >= len(q.conns) || q.conns[c].closed {
			return nil
		}
		r := q.conns[c]
		joined := false
		for _, e := range q.s.Rec.Events(r.idx) {
			if e.Kind == "join" && e.Err == "" {
				joined = true
			}
		}
		if !joined {
			return nil
		}
		before := r.nreplies()
		r.t.SendAs(r.phone, 0x0002, nil)
		waitUntil(2*time.Second, func() bool { return r.nreplies() > before })
		if r.nreplies() == before {
			q.note("joined connection %d no longer answers heartbeats", c)
		}
		return q.nextEvents(c, 0, 0)
	case "s":
		c := num(1)
		if c >= len(q.conns) || q.conns[c].closed {
			return nil
		}
		r := q.conns[c]
		r.closed = true
		r.t.Close()
		out := q.nextEvents(c, 1, 2*time.Second)
		for k, h := range q.holder {
			if h == c {
				delete(q.holder, k)
				if len(out) != 1 || out[0] != fmt.Sprintf("l:%d:%s", c, keyNum(k)) {
					q.note("owner %d of key %q ended: leave callback %v", c, k, out)
				}
			}
		}
		return out
	case "w":
		k := num(1)
		i := q.ncall
		q.ncall++
		key, _ := keyOf(phoneOfKey(k))
		before := make([]int, len(q.conns))
		for j, r := range q.conns {
			before[j] = r.ncmds()
		}
		res := Await(q.s.Call(key, cmdID, []byte{1, 0, 0, 0}, 400*time.Millisecond), 3*time.Second)
		got := -1
		for j, r := range q.conns {
			if r.ncmds() > before[j] {
				if got >= 0 {
					q.note("command for key %q written to two connections %d and %d", key, got, j)
				}
				got = j
			}
		}
		h, online := q.holder[key]
		switch {
		case res.Kind == "noexist" && got < 0:
			if online {
				q.note("key %q held by connection %d but the call returned ErrNotExistKey", key, h)
			}
			if res.Dur > 300*time.Millisecond {
				q.note("ErrNotExistKey for key %q only after %v", key, res.Dur)
			}
			return []string{fmt.Sprintf("n:%d", i)}
		case got >= 0:
			if !online || h != got {
				q.note("command for key %q went to connection %d, holder %v/%v", key, got, h, online)
			}
			if res.Kind != "resp" {
				q.note("command for key %q answered by connection %d but the call returned %s", key, got, res.Kind)
			}
			return []string{fmt.Sprintf("r:%d:%d", i, got)}
		}
		q.note("call for key %q: result %s, no connection received the command", key, res.Kind)
		return []string{fmt.Sprintf("?:%d:%s", i, res.Kind)}
	}
	return nil
}

// finish closes what is still open so that the shared server's registry is empty again.
func (q *seqRun) finish() {
	for c, r := range q.conns {
		if !r.closed {
			r.closed = true
			r.t.Close()
			q.nextEvents(c, 1, 2*time.Second)
		}
	}
	// every connection: its callbacks must be one legal life
	for c, r := range q.conns {
		if msg := lifeShape(q.s.Rec.Events(r.idx)); msg != "" {
			q.note("connection %d callbacks: %s", c, msg)
		}
	}
}

// lifeShape: invalid* then (join ok k, leave k | join exist, leave "" | leave ""), nothing else.
func lifeShape(evs []Ev) string {
	i := 0
	for i < len(evs) && evs[i].Kind == "join" && evs[i].Err == "invalid" {
		i++
	}
	rest := evs[i:]
	desc := func() string {
		var s []string
		for _, e := range evs {
			s = append(s, e.Kind+"("+e.Key+","+e.Err+")")
		}
		return strings.Join(s, " ")
	}
	switch {
	case len(rest) == 1 && rest[0].Kind == "leave" && rest[0].Key == "":
	case len(rest) == 2 && rest[0].Kind == "join" && rest[0].Err == "" && rest[1].Kind == "leave" && rest[1].Key == rest[0].Key:
	case len(rest) == 2 && rest[0].Kind == "join" && rest[0].Err == "exist" && rest[1].Kind == "leave" && rest[1].Key == "":
	default:
		return desc()
	}
	return ""
}

func waitUntil(d time.Duration, f func() bool) bool {
	end := time.Now().Add(d)
	for !f() {
		if time.Now().After(end) {
			return false
		}
		time.Sleep(200 * time.Microsecond)
	}
	return true
}

func runSeq(tokens []string) (string, []string) {
	q := newSeqRun()
	var obs []string
	for _, t := range tokens {
		obs = append(obs, q.exec(t)...)
	}
	q.finish()
	ans := "ok"
	for _, o := range obs {
		ans += " " + o
	}
	return ans, q.notes
}

// ---------------------------------------------------------------- concurrent scripts

type hop struct {
	tok       string
	inv, resp int64 // microseconds since the start of the scenario
	obs       string
}

type concResult struct {
	hist  []hop
	notes []string
}

// runConc: nconn connections are dialled first (Connect operations, sequential), then every
// connection runs its own little life and ncallers callers fire at random keys, all concurrently.
func runConc(seed int64, nconn, nkeys, ncallers int) concResult {
	s := server()
	rng := newRand(seed)
	var res concResult
	var mu sync.Mutex
	t0 := time.Now()
	now := func() int64 { return time.Since(t0).Microseconds() }
	add := func(h hop) { mu.Lock(); res.hist = append(res.hist, h); mu.Unlock() }
	note := func(f string, a ...any) {
		mu.Lock()
		res.notes = append(res.notes, fmt.Sprintf(f, a...))
		mu.Unlock()
	}
	conns := make([]*regTerm, nconn)
	for i := range conns {
		a := now()
		conns[i] = newRegTerm(s)
		add(hop{tok: "c", inv: a, resp: now(), obs: "-"})
	}
	type plan struct {
		key             int
		d1, d2          time.Duration
		bad, join, more bool
	}
	plans := make([]plan, nconn)
	for i := range plans {
		plans[i] = plan{key: 1 + rng.Intn(nkeys), d1: time.Duration(rng.Intn(1500)) * time.Microsecond,
			d2: time.Duration(rng.Intn(2500)) * time.Microsecond, bad: rng.Intn(6) == 0, join: rng.Intn(8) != 0, more: rng.Intn(2) == 0}
	}
	type cplan struct {
		key int
		d   time.Duration
	}
	cplans := make([]cplan, ncallers)
	for i := range cplans {
		cplans[i] = cplan{key: 1 + rng.Intn(nkeys), d: time.Duration(rng.Intn(3500)) * time.Microsecond}
	}
	// certain-ownership windows [join callback seen, close initiated] per connection, for the direct oracle
	type window struct {
		key         string
		from, until int64
		sent, left  int64
		ok          bool
	}
	wins := make([]window, nconn)
	var wg sync.WaitGroup
	for i := range conns {
		wg.Add(1)
		go func(c int) {
			defer wg.Done()
			r, p := conns[c], plans[c]
			q := &seqRun{s: s, conns: conns, holder: map[string]int{}}
			time.Sleep(p.d1)
			if p.bad {
				a := now()
				r.mu.Lock()
				r.phone = "99" + strconv.Itoa(c)
				r.mu.Unlock()
				r.t.SendAs(r.phone, 0x0002, nil)
				o := q.nextEvents(c, 1, 2*time.Second)
				add(hop{tok: fmt.Sprintf("b:%d", c), inv: a, resp: now(), obs: strings.Join(o, "+")})
			}
			refused := false
			var fInv int64
			if p.join {
				a := now()
				fInv = a
				phone := phoneOfKey(p.key)
				r.mu.Lock()
				r.phone = phone
				r.mu.Unlock()
				r.t.SendAs(phone, 0x0002, nil)
				o := q.nextEvents(c, 1, 2*time.Second)
				b := now()
				add(hop{tok: fmt.Sprintf("f:%d:%d", c, p.key), inv: a, resp: b, obs: strings.Join(o, "+")})
				if len(o) == 1 && strings.HasSuffix(o[0], ":0") {
					wins[c] = window{key: phone, from: b, sent: a, ok: true}
				}
				if len(o) == 1 && strings.HasSuffix(o[0], ":1") {
					refused = true
					select {
					case <-r.eof:
					case <-time.After(2 * time.Second):
						note("refused connection %d was not closed", c)
					}
				}
			}
			if p.more && !refused {
				time.Sleep(p.d2 / 2)
				r.t.SendAs(r.phone, 0x0002, nil)
			}
			time.Sleep(p.d2)
			a := now()
			if refused {
				a = fInv // the automatic leave may have happened any time after the refused join was sent
			}
			wins[c].until = a
			r.closed = true
			r.t.Close()
			o := q.nextEvents(c, 1, 2*time.Second)
			b := now()
			wins[c].left = b
			add(hop{tok: fmt.Sprintf("s:%d", c), inv: a, resp: b, obs: strings.Join(o, "+")})
		}(i)
	}
	type sendRec struct {
		key       string
		inv, resp int64
		got       int
		kind      string
	}
	sends := make([]sendRec, ncallers)
	for i := range cplans {
		wg.Add(1)
		go func(i int) {
			defer wg.Done()
			p := cplans[i]
			time.Sleep(p.d)
			key := phoneOfKey(p.key)
			a := now()
			r := Await(s.Call(key, cmdID, []byte{byte(i), 0, 0, 0}, 300*time.Millisecond), 3*time.Second)
			b := now()
			sends[i] = sendRec{key: key, inv: a, resp: b, got: -1, kind: r.Kind}
			if r.Kind == "hang" {
				note("SendActiveMessage for key %s did not return within 3s", key)
			}
		}(i)
	}
	wg.Wait()
	// which connection received which command: the command body's first byte names the caller;
	// the responder only counts, so derive "routed to" from counts when unambiguous: one
	// command per caller and body[0] = caller is recorded by recvBy below.
	for i := range sends {
		sends[i].got = recvBy(conns, byte(i))
		sr := sends[i]
		if sr.got == -2 {
			note("command of caller %d for key %s was written to more than one connection", i, sr.key)
		}
		obs := "x" // noexist: either never online, or handed to a connection that stopped before writing it
		if sr.got >= 0 {
			obs = fmt.Sprintf("r:*:%d", sr.got)
		}
		add(hop{tok: fmt.Sprintf("w:%s", keyNum(sr.key)), inv: sr.inv, resp: sr.resp, obs: obs})
		// direct oracle: routing against certain/possible ownership windows
		if sr.got >= 0 {
			w := wins[sr.got]
			if !w.ok || w.key != sr.key {
				note("command for key %s was written to connection %d which never joined with it", sr.key, sr.got)
			} else if sr.inv > w.left || sr.resp < w.sent {
				note("command for key %s [%d,%d] written to connection %d outside its life [%d,%d]", sr.key, sr.inv, sr.resp, sr.got, w.sent, w.left)
			}
			if sr.kind != "resp" && sr.kind != "noexist" && sr.kind != "timeout" {
				note("caller for key %s got %s", sr.key, sr.kind)
			}
		} else if sr.kind == "noexist" {
			for c, w := range wins {
				if w.ok && w.key == sr.key && w.from < sr.inv && sr.resp < w.until {
					note("key %s was held by connection %d during the whole call [%d,%d] but it returned ErrNotExistKey", sr.key, c, sr.inv, sr.resp)
				}
			}
		} else if sr.kind != "hang" {
			note("caller for key %s got %s but no connection received the command", sr.key, sr.kind)
		}
	}
	// direct oracle: two connections certainly holding the same key at the same time
	for a := 0; a < nconn; a++ {
		for b := a + 1; b < nconn; b++ {
			wa, wb := wins[a], wins[b]
			if wa.ok && wb.ok && wa.key == wb.key && wa.from < wb.until && wb.from < wa.until {
				note("connections %d and %d both held key %s during [%d,%d]", a, b, wa.key, max64(wa.from, wb.from), min64(wa.until, wb.until))
			}
		}
	}
	for c, r := range conns {
		if msg := lifeShape(s.Rec.Events(r.idx)); msg != "" {
			note("connection %d callbacks: %s", c, msg)
		}
	}
	sort.SliceStable(res.hist, func(i, j int) bool { return res.hist[i].inv < res.hist[j].inv })
	return res
}

func max64(a, b int64) int64 {
	if a > b {
		return a
	}
	return b
}
func min64(a, b int64) int64 {
	if a < b {
		return a
	}
	return b
}

func main() {
	RegisterOp("regseq", func(a []string) string {
		ans, notes := runSeq(a)
		if len(notes) > 0 {
			return ans + " !! " + strings.Join(notes, "; ")
		}
		return ans
	})
	RegisterOp("regconc", func(a []string) string { // regconc <seed> <nconn> <nkeys> <ncallers>: direct oracle only
		n := func(i int) int { v, _ := strconv.Atoi(a[i]); return v }
		r := runConc(int64(n(0)), n(1), n(2), n(3))
		return fmt.Sprintf("history=%d notes=%v", len(r.hist), r.notes)
	})
	Main("C11", c11)
}

func c11(c *Ctx) {
	c.Rule = "sequential scripts (regseq): random operation lists over <=5 connections, keys {1,2,3} plus the empty key and invalid keys, executed one operation at a time on a live server, observations compared token by token with the model; concurrent scripts (reglin): 2..8 connections x 1..3 keys x 0..4 callers with random timing, the recorded history must have a real-time-consistent linearisation that the model explains; a case is non-trivial when it contains a duplicate-key connect, a leave followed by a re-join, or a send; distinct = distinct request lines"
	rng := c.Rng
	nseq, nconc := 160, 220
	if !c.Quick() {
		nseq, nconc = 2500, 5000
	}
	// ---- fixed corpus of sequential scripts (the shapes the property names)
	corpus := []string{
		"c c f:0:7 f:1:7 s:1 w:7 s:0 w:7",           // duplicate refused, first keeps working, then leaves
		"c f:0:7 s:0 c f:1:7 w:7 s:1",               // rejoin after leave
		"c c f:0:1 f:1:2 s:0 w:1 w:2 s:1 w:2",       // leave frees only its own key
		"c s:0 c b:1 b:1 f:1:3 m:1 w:3 s:1",         // never joined; invalid keys then join
		"c c c f:0:5 f:1:5 s:1 f:2:5 s:2 s:0 w:5",   // two refusals
		"c c f:0:0 s:1 w:0 s:0",                     // the empty key: the never-joined connection evicts it (model and code agree)
		"w:9 c f:0:9 w:9 m:0 f:0:4 w:4 w:9 s:0 w:9", // message with another phone on a joined connection
	}
	for _, line := range corpus {
		oneSeq(c, strings.Fields(line), "corpus")
	}
	// ---- random sequential scripts, generated adaptively (a refused connection ends at once)
	for n := 0; n < nseq; n++ {
		q := newSeqRun()
		var toks, obs []string
		steps := 4 + rng.Intn(22)
		emptyKey := rng.Intn(12) == 0
		nk := 1 + rng.Intn(3)
		do := func(t string) []string {
			toks = append(toks, t)
			o := q.exec(t)
			obs = append(obs, o...)
			return o
		}
		for i := 0; i < steps; i++ {
			nc := len(q.conns)
			key := 1 + rng.Intn(nk)
			if emptyKey && rng.Intn(3) == 0 {
				key = 0
			}
			x := rng.Intn(100)
			switch {
			case nc == 0 || (x < 18 && nc < 5):
				do("c")
			case x < 50:
				cn := rng.Intn(nc)
				o := do(fmt.Sprintf("f:%d:%d", cn, key))
				if len(o) == 1 && strings.HasSuffix(o[0], ":1") {
					do(fmt.Sprintf("s:%d", cn))
				}
			case x < 56:
				do(fmt.Sprintf("b:%d", rng.Intn(nc)))
			case x < 64:
				do(fmt.Sprintf("m:%d", rng.Intn(nc)))
			case x < 80:
				do(fmt.Sprintf("s:%d", rng.Intn(nc)))
			default:
				do(fmt.Sprintf("w:%d", key))
			}
		}
		q.finish()
		recordSeq(c, toks, obs, q.notes, emptyKey, "random")
	}
	// ---- concurrent scripts
	for n := 0; n < nconc; n++ {
		nconn, nkeys, ncallers := 2+rng.Intn(7), 1+rng.Intn(3), rng.Intn(5)
		if nconn+ncallers > 10 {
			ncallers = 10 - nconn
		}
		seed := rng.Int63n(1 << 40)
		r := runConc(seed, nconn, nkeys, ncallers)
		var items []string
		dup, send := false, ncallers > 0
		for _, h := range r.hist {
			o := h.obs
			if o == "" {
				o = "-"
			}
			items = append(items, fmt.Sprintf("%s@%d-%d=%s", h.tok, h.inv, h.resp, o))
			if strings.HasPrefix(o, "j:") && strings.HasSuffix(o, ":1") {
				dup = true
			}
		}
		req := "reglin " + strings.Join(items, " ")
		c.Case(req, "lin ok", dup || send)
		c.Count(fmt.Sprintf("conc:conns=%d", nconn))
		if dup {
			c.Count("conc:duplicate-refused")
		}
		for _, note := range r.notes {
			c.Violate(Violation{Signature: "C11/" + noteClass(note), What: "registry property violated in a concurrent history",
				Input: fmt.Sprintf("regconc %d %d %d %d", seed, nconn, nkeys, ncallers), Observed: note + " | history: " + Trunc(req, 1500),
				Required: "at most one live owner per key; refused connection closed and told so; leave carries the connection's own key; commands go to the current owner; a key that is not online fails at once"})
		}
	}
}

func noteClass(n string) string {
	switch {
	case strings.Contains(n, "both held"), strings.Contains(n, "while connection"):
		return "two-owners"
	case strings.Contains(n, "refused"):
		return "refusal"
	case strings.Contains(n, "callbacks"), strings.Contains(n, "leave callback"):
		return "callbacks"
	case strings.Contains(n, "ErrNotExistKey"):
		return "not-exist"
	case strings.Contains(n, "did not return"):
		return "call-hangs"
	case strings.Contains(n, "heartbeats"):
		return "owner-disturbed"
	}
	return "routing"
}

func recordSeq(c *Ctx, toks, obs, notes []string, emptyKey bool, what string) {
	req := "regseq " + strings.Join(toks, " ")
	ans := "ok"
	dup, rejoin, send := false, false, false
	left := map[string]bool{}
	for _, o := range obs {
		ans += " " + o
		p := strings.Split(o, ":")
		switch {
		case p[0] == "j" && p[3] == "1":
			dup = true
		case p[0] == "l":
			left[p[2]] = true
		case p[0] == "j" && p[3] == "0" && left[p[2]]:
			rejoin = true
		case p[0] == "r" || p[0] == "n":
			send = true
		}
	}
	c.Case(req, ans, dup || rejoin || send)
	c.Count(what + ":ops=" + strconv.Itoa(len(toks)/8*8) + "+")
	if dup {
		c.Count("seq:duplicate-refused")
	}
	if rejoin {
		c.Count("seq:rejoin-after-leave")
	}
	if emptyKey {
		c.Count("seq:with-empty-key")
		return // outside the property's hypothesis (KeyFunc never yields ""): correspondence only
	}
	for _, note := range notes {
		c.Violate(Violation{Signature: "C11/" + noteClass(note), What: "registry property violated in a sequential script",
			Input: req, Observed: note + " | observations: " + ans,
			Required: "at most one live owner per key; refused connection closed and told so; leave carries the connection's own key; commands go to the current owner; a key that is not online fails at once"})
	}
}

func oneSeq(c *Ctx, toks []string, what string) {
	q := newSeqRun()
	var obs []string
	empty := false
	for _, t := range toks {
		obs = append(obs, q.exec(t)...)
		if strings.HasPrefix(t, "f:") && strings.HasSuffix(t, ":0") {
			empty = true
		}
	}
	q.finish()
	recordSeq(c, toks, obs, q.notes, empty, what)
}

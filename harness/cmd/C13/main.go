// C13 — disconnects never crash the server or strand callers.
//
// The scenarios of lib/conc_writer.go that close or reset the terminal at each point of the connection's
// life (idle, before the join completes, with commands queued in activeMsgChan, written and waiting, right
// after a response, around the expiry of the timers, with commands that have no timeout) run in a CHILD
// process: this same program built from the current tree with the delay overlay of lib/overlay_conc.go
// (seeded Gosched / Sleep before every channel operation, close and socket write of connection.go), once
// per delay configuration.  Observations:
//
//	the child's exit status and stderr            -> C13/crash  (send on closed channel, close of closed channel, ...)
//	every call returned within timeout + 2 s      -> C13/caller-stranded   (direct oracle of lib/conc_writer.go)
//	the recorded history of every scenario        -> `wexp` request: explained by a schedule of Model/Writer.v?
//
// plus `wold`: the four historical defect schedules on the pre-repair model must still evaluate as recorded.
package main

import (
	"fmt"
	"os"
	"sort"
	"strconv"
	"strings"
	"sync"
	"time"

	. "verifh/lib"
)

var (
	childOnce sync.Once
	childBin  string
	childErr  error
	nsites    int
)

func child() (string, error) {
	childOnce.Do(func() { childBin, nsites, childErr = OverlayChild("C13") })
	return childBin, childErr
}

func runBatch(d DelayCfg, par int, jobs []string, limit time.Duration) BatchRes {
	bin, err := child()
	if err != nil {
		return BatchRes{Crash: "child build failed: " + err.Error()}
	}
	return RunBatch(bin, &d, par, jobs, limit)
}

func batchInput(d DelayCfg, par int, jobs []string) string {
	return fmt.Sprintf("c13child %s %d %s", d.String(), par, strings.Join(jobs, ";"))
}

var oldSchedules = [][2]string{
	{"wold mp:7 sa tf:0 pc rs tsd:0", "ok w0.7,CRASH holding=0"},
	{"wold mp:7 pc rs sa ds", "ok CRASH holding=0"},
	{"wold mp:7 sa rp:0 rp:0 rp:0 rp:0 sm ds sm ds sm ds sm ds", "ok w0.7 holding=1"},
	{"wold mp:7 sa pc rs ss tf:0", "ok w0.7 holding=0"},
}

func main() {
	if len(os.Args) > 1 && os.Args[1] == "-child" {
		ChildMain(os.Args[2:])
		return
	}
	RegisterOp("wexp", func(a []string) string { return "exp ok" })
	RegisterOp("wold", func(a []string) string {
		req := "wold " + strings.Join(a, " ")
		for _, o := range oldSchedules {
			if o[0] == req {
				return o[1]
			}
		}
		return "unknown historical schedule"
	})
	RegisterOp("c13child", func(a []string) string { // c13child <seed:us:p:site> <par> <job>;<job>;...
		if len(a) < 3 {
			return "bad-args"
		}
		cfg := ParseDelayCfg(a[0])
		par, _ := strconv.Atoi(a[1])
		jobs := strings.Split(strings.Join(a[2:], " "), ";")
		r := runBatch(cfg, par, jobs, 120*time.Second)
		var v []string
		for _, o := range r.Outs {
			for _, x := range o.Viol {
				v = append(v, fmt.Sprintf("[%s] %s: %s", o.Line, x.Sig, x.Observed))
			}
			if len(jobs) == 1 {
				v = append(v, "history: "+o.Req)
			}
		}
		return fmt.Sprintf("child crash=%q scenarios-reported=%d/%d violations=%v", r.Crash, len(r.Outs), len(jobs), v)
	})
	Main("C13", c13)
}

func c13(c *Ctx) {
	c.Rule = "fault enumeration in a child process built with the delay overlay: scenarios close-idle / close-early (before the join completes) / close-queued (3..7 commands, the terminal goes after 1-2 were written) / close-outstanding / rst-outstanding / close-afterresp / close-timer (close within -1.5..+4.5 ms of the timer expiry) / notmo (no timeout, released by the disconnect) / mixed / burst / flood-close (30..400 heartbeats in one segment, then close or RST after 1-3 replies or 0.1-8 ms) / reissue-close (0..8 0x8003 frames in one write plus single ones, close or RST 0.05-8 ms later) / stall-close (a transfer stalled for 5 s: generated re-request, then close) / default0 (OverTimeDuration 0, silent terminal), 1..8 callers, timeouts 5-600 ms and the 3 s default, garbage-close (a frame with a bad check code from a live peer) / nohandler (commands whose id has no entry in the handler table: unanswered, answered, outstanding at the disconnect; also one command in five of every other kind) / emptykey-close (KeyFunc result is the empty key: join, commands, disconnect, one more command to the empty key), under 8 configurations: 6 delay configurations (seeded Gosched only at 30 / 60 % of the instrumented sites, sleeps up to 0.2 / 0.5 / 1 / 3 ms at 30 / 20 / 15 / 12 %) and, for each of the instrumented sites in turn, with that site alone always delaying 2.5 ms; 2 configurations in which the user callbacks sleep up to 20 / 5 ms; the witness of finding blocked-write in a server of its own; a case is non-trivial when at least one call was made and the terminal went away; distinct = distinct recorded histories"
	for _, o := range oldSchedules {
		c.Do(o[0], false)
	}
	if _, err := child(); err != nil {
		c.Violate(Violation{Signature: "C13/child-build", What: "the server with the delay overlay does not build from the current tree",
			Input: "c13child 1:0:30:0 1 scn close-idle 1", Observed: Trunc(err.Error(), 1500), Required: "a child binary"})
		return
	}
	kinds := []string{"close-idle", "close-early", "close-queued", "close-queued", "close-outstanding", "rst-outstanding",
		"close-afterresp", "close-timer", "close-timer", "notmo", "mixed", "burst", "flood-close", "flood-close", "reissue-close", "reissue-close", "garbage-close", "nohandler", "nohandler", "bodylen"}
	cfgs := []DelayCfg{{Seed: int(c.Seed), US: 0, P: 30}, {Seed: int(c.Seed) + 1, US: 200, P: 30}, {Seed: int(c.Seed) + 2, US: 1000, P: 15},
		{Seed: int(c.Seed) + 3, US: 3000, P: 12}, {Seed: int(c.Seed) + 4, US: 0, P: 60}, {Seed: int(c.Seed) + 5, US: 500, P: 20},
		// user callbacks (OnRead/OnWrite/OnJoin/OnLeaveEvent) that sleep up to 20 / 5 ms, with and without the overlay's delays
		{Seed: int(c.Seed) + 6, US: 0, P: 30, SlowCB: 20}, {Seed: int(c.Seed) + 7, US: 200, P: 30, SlowCB: 5}}
	per := 16
	if !c.Quick() {
		per = 120
		for i := 0; i < 12; i++ {
			cfgs = append(cfgs, DelayCfg{Seed: int(c.Seed) + 10 + i, US: []int{0, 100, 500, 2000}[i%4], P: []int{50, 30, 10}[i%3]})
		}
	}
	type br struct {
		d    DelayCfg
		jobs []string
		r    BatchRes
	}
	var results []*br
	for _, d := range cfgs {
		var jobs []string
		for _, k := range kinds {
			for j := 0; j < per; j++ {
				jobs = append(jobs, fmt.Sprintf("scn %s %d", k, c.Rng.Int63n(90000000)))
			}
		}
		if len(results) < 2 || !c.Quick() { // OverTimeDuration 0 (3 s default) on a silent terminal: 3 s each, alongside the rest
			for j := 0; j < 2; j++ {
				jobs = append(jobs, fmt.Sprintf("scn default0 %d", c.Rng.Int63n(90000000)))
			}
			jobs = append(jobs, fmt.Sprintf("scn stall-close %d", c.Rng.Int63n(90000000))) // 5 s: generated re-request, then close
		}
		for j := 0; j < 6; j++ { // a terminal whose key is "": join, commands, disconnect, one more command to "" (one at a time)
			jobs = append(jobs, fmt.Sprintf("scn emptykey-close %d", c.Rng.Int63n(90000000)))
		}
		results = append(results, &br{d: d, jobs: jobs})
	}
	// targeted: one site at a time always delays by 2.5 ms (the window between a check and the action it
	// guards, between two closes, ... is held open) while terminals disconnect around the timer expiry
	sites := DelaySites()
	c.Extra["delay_sites"] = len(sites)
	tk := []string{"close-timer", "close-timer", "close-timer", "close-timer", "close-timer", "close-timer",
		"close-outstanding", "close-queued", "close-queued", "close-afterresp", "rst-outstanding", "notmo", "flood-close", "flood-close",
		"reissue-close", "reissue-close", "nohandler", "emptykey-close"}
	reps := 1
	if !c.Quick() {
		reps = 24
	}
	for rep := 0; rep < reps; rep++ {
		for _, st := range sites {
			var jobs []string
			for _, k := range tk {
				jobs = append(jobs, fmt.Sprintf("scn %s %d", k, c.Rng.Int63n(90000000)))
			}
			results = append(results, &br{d: DelayCfg{Seed: int(c.Seed), US: 2500, P: 100, Site: st.ID + 1}, jobs: jobs})
			c.Count("targeted:" + st.Func + "/" + st.What)
		}
	}
	// the witness of finding blocked-write, in a server of its own (it wedges the session manager); also in the quick tier
	results = append(results, &br{d: DelayCfg{Seed: int(c.Seed), US: 0, P: 0}, jobs: []string{fmt.Sprintf("scn noread %d", c.Rng.Int63n(90000000))}})
	if !c.Quick() { // default0 (3 s timer) with disconnects under the targeted delays as well
		tk = append(tk, "default0")
	}
	limit := 70 * time.Second
	if !c.Quick() {
		limit = 10 * time.Minute
	}
	var wg sync.WaitGroup
	sem := make(chan struct{}, 3) // three children at a time
	for _, b := range results {
		wg.Add(1)
		sem <- struct{}{}
		go func(b *br) {
			defer wg.Done()
			defer func() { <-sem }()
			b.r = runBatch(b.d, 12, b.jobs, limit)
		}(b)
	}
	wg.Wait()
	var notes []string
	witnesses := map[string]string{} // witness kind -> outcome (reproduced / not-reproduced / setup-failed: ... / no-report)
	defer func() { c.Extra["notes"] = notes; c.Extra["finding_witnesses"] = witnesses }()
	for _, b := range results {
		if len(b.jobs) == 1 && strings.HasPrefix(b.jobs[0], "scn noread") && len(b.r.Outs) == 0 {
			notes = append(notes, "NOTE witness noread: no report from the child ("+Trunc(b.r.Crash, 200)+")")
			c.Count("witness:noread:no-report")
			witnesses["noread"] = "no-report"
		}
		if b.d.SlowCB > 0 {
			c.Count(fmt.Sprintf("slow-callbacks:%dms", b.d.SlowCB))
		}
		if b.d.Site == 0 {
			c.Count(fmt.Sprintf("delay:us=%d,p=%d", b.d.US, b.d.P))
		}
		if b.r.Crash != "" {
			c.Violate(Violation{Signature: "C13/crash", What: "the server process died while terminals were disconnecting",
				Input: batchInput(b.d, 12, b.jobs), Observed: b.r.Crash, Required: "the server process keeps running"})
		}
		if b.r.Slow {
			c.Count("batch-killed-at-time-limit")
		}
		c.Dist["scenarios-reported"] += len(b.r.Outs)
		c.Dist["scenarios-started"] += len(b.jobs)
		sort.Slice(b.r.Outs, func(i, j int) bool { return b.r.Outs[i].Job < b.r.Outs[j].Job })
		for _, o := range b.r.Outs {
			f := strings.Fields(o.Line)
			if len(f) != 3 {
				continue
			}
			c.Count("scn:" + f[1])
			if o.Note != "" {
				n := o.Note
				if i := strings.Index(n, ":"); i > 0 {
					n = n[:i]
				}
				c.Count("witness:" + f[1] + ":" + n)
				witnesses[f[1]] = o.Note
				if n != "reproduced" {
					notes = append(notes, "NOTE witness "+f[1]+" ("+o.Line+"): "+o.Note)
				}
			}
			for k, n := range o.Kinds {
				c.Dist["result:"+k] += n
			}
			input := batchInput(b.d, 1, []string{o.Line})
			for _, v := range o.Viol {
				c.Violate(Violation{Signature: "C13/" + v.Sig, What: v.What, Input: input,
					Observed: v.Observed + " | " + o.Desc + " | " + o.Req, Required: v.Required})
			}
			if strings.HasPrefix(o.Req, "wexp ") {
				c.Case(o.Req, "exp ok", o.N > 0 && strings.Contains(o.Req, "T/x/"))
			}
		}
	}
}

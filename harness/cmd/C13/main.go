// C13 — disconnects never crash the server or strand callers.
//
// The scenarios of lib/conc_writer.go that close or reset the terminal at each point of the connection's
// life (idle, before the join completes, with commands queued in activeMsgChan, written and waiting, right
// after a response, around the expiry of the timers, with commands that have no timeout) run in a CHILD
// process: this same program built from the current tree with the delay overlay of lib/overlay_conc.go
// (seeded Gosched / Sleep before every channel operation, close and socket write of connection.go), once
// per delay configuration.  Observations:
//
//	the child's exit status and stderr            -> C13/crash  (send on closed channel, close of closed channel, ...)
//	every call returned within timeout + 2 s      -> C13/caller-stranded   (direct oracle of lib/conc_writer.go)
//	the recorded history of every scenario        -> `wexp` request: explained by a schedule of Model/Writer.v?
//
// plus `wold`: the four historical defect schedules on the pre-repair model must still evaluate as recorded.
package main

import (
	"bufio"
	"bytes"
	"crypto/sha256"
	"encoding/json"
	"fmt"
	"io"
	"log/slog"
	"os"
	"os/exec"
	"path/filepath"
	"sort"
	"strconv"
	"strings"
	"sync"
	"time"

	. "verifh/lib"
)

type childOut struct {
	Kind  string         `json:"kind"`
	Seed  int64          `json:"seed"`
	Req   string         `json:"req"`
	Desc  string         `json:"desc"`
	Viol  []WViol        `json:"viol"`
	Kinds map[string]int `json:"kinds"`
	N     int            `json:"n"`
}

// ---------------------------------------------------------------- child
// child -child <par> <kind:seed> ...
func childMain(args []string) {
	slog.SetDefault(slog.New(slog.NewTextHandler(io.Discard, &slog.HandlerOptions{Level: slog.Level(100)})))
	out := bufio.NewWriter(os.Stdout)
	dn, _ := os.OpenFile(os.DevNull, os.O_WRONLY, 0)
	os.Stdout = dn // the library prints on stdout
	par, _ := strconv.Atoi(args[0])
	if par < 1 {
		par = 1
	}
	s := StartSrv(nil)
	var mu sync.Mutex
	var wg sync.WaitGroup
	sem := make(chan struct{}, par)
	for _, j := range args[1:] {
		p := strings.SplitN(j, ":", 2)
		seed, _ := strconv.ParseInt(p[1], 10, 64)
		wg.Add(1)
		sem <- struct{}{}
		go func(kind string, seed int64) {
			defer wg.Done()
			defer func() { <-sem }()
			sc := GenW(kind, seed)
			h := RunW(s, sc)
			o := childOut{Kind: kind, Seed: seed, Req: h.Request(), Desc: sc.Describe(), Viol: h.Viol, Kinds: h.Kinds, N: h.NCalls}
			b, _ := json.Marshal(o)
			mu.Lock()
			out.Write(b)
			out.WriteByte('\n')
			out.Flush()
			mu.Unlock()
		}(p[0], seed)
	}
	wg.Wait()
	// leave the server a moment: a crash caused by the last disconnect must still be seen
	time.Sleep(150 * time.Millisecond)
	out.Flush()
}

// ---------------------------------------------------------------- parent
var (
	childOnce sync.Once
	childBin  string
	childErr  error
	nsites    int
)

func child() (string, error) {
	childOnce.Do(func() {
		// the child is keyed by the content of THIS binary (which contains the service code of the tree under
		// test and the harness): bin/check runs private copies of the harness from one shared directory
		exe, err := os.Executable()
		if err != nil {
			exe = os.Args[0]
		}
		b, err := os.ReadFile(exe)
		if err != nil {
			childErr = err
			return
		}
		sum := sha256.Sum256(b)
		name := fmt.Sprintf("child-C13-%x", sum[:8])
		dir := filepath.Dir(exe)
		if abs, err := filepath.Abs(dir); err == nil {
			dir = abs
		}
		if old, _ := filepath.Glob(filepath.Join(dir, "child-C13-*")); len(old) > 0 {
			for _, o := range old {
				if st, err := os.Stat(o); err == nil && time.Since(st.ModTime()) > 6*time.Hour && !strings.Contains(o, name) {
					os.RemoveAll(o)
				}
			}
		}
		bin := filepath.Join(dir, name)
		if _, err := os.Stat(bin); err == nil {
			childBin = bin
			return
		}
		tmp := fmt.Sprintf("%s.%d", name, os.Getpid())
		bb, sites, err := BuildChild("C13", dir, tmp, false)
		nsites = len(sites)
		os.RemoveAll(filepath.Join(dir, "overlay-"+tmp))
		if err != nil {
			childErr = err
			return
		}
		if err := os.Rename(bb, bin); err != nil {
			childErr = err
			return
		}
		childBin = bin
	})
	return childBin, childErr
}

type delayCfg struct{ seed, us, p int }

type batchRes struct {
	outs   []childOut
	crash  string // non-empty: the child died
	stderr string
}

func runBatch(d delayCfg, par int, jobs []string, limit time.Duration) batchRes {
	bin, err := child()
	if err != nil {
		return batchRes{crash: "child build failed: " + err.Error()}
	}
	args := append([]string{"-child", strconv.Itoa(par)}, jobs...)
	cmd := exec.Command(bin, args...)
	cmd.Env = append(os.Environ(), fmt.Sprintf("VERIF_DELAY_SEED=%d", d.seed), fmt.Sprintf("VERIF_DELAY_US=%d", d.us),
		fmt.Sprintf("VERIF_DELAY_P=%d", d.p), "GOTRACEBACK=single")
	var so, se bytes.Buffer
	cmd.Stdout, cmd.Stderr = &so, &se
	done := make(chan error, 1)
	if err := cmd.Start(); err != nil {
		return batchRes{crash: "child did not start: " + err.Error()}
	}
	go func() { done <- cmd.Wait() }()
	var werr error
	timedOut := false
	select {
	case werr = <-done:
	case <-time.After(limit):
		cmd.Process.Kill()
		<-done
		timedOut = true
	}
	var res batchRes
	for _, l := range strings.Split(so.String(), "\n") {
		if strings.TrimSpace(l) == "" {
			continue
		}
		var o childOut
		if json.Unmarshal([]byte(l), &o) == nil {
			res.outs = append(res.outs, o)
		}
	}
	res.stderr = se.String()
	st := res.stderr
	switch {
	case strings.Contains(st, "panic:") || strings.Contains(st, "fatal error:"):
		i := strings.Index(st, "panic:")
		if i < 0 {
			i = strings.Index(st, "fatal error:")
		}
		res.crash = Trunc(strings.ReplaceAll(st[i:], "\n", " | "), 700)
	case timedOut:
		res.crash = "" // slowness alone is not a violation; the scenarios that did not report are simply missing
	case werr != nil:
		res.crash = "child exited: " + werr.Error() + " " + Trunc(strings.ReplaceAll(st, "\n", " | "), 400)
	}
	return res
}

func batchInput(d delayCfg, par int, jobs []string) string {
	return fmt.Sprintf("c13child %d %d %d %d %s", d.seed, d.us, d.p, par, strings.Join(jobs, ","))
}

var oldSchedules = [][2]string{
	{"wold mp:7 sa tf:0 pc rs tsd:0", "ok w0.7,CRASH holding=0"},
	{"wold mp:7 pc rs sa ds", "ok CRASH holding=0"},
	{"wold mp:7 sa rp:0 rp:0 rp:0 rp:0 sm ds sm ds sm ds sm ds", "ok w0.7 holding=1"},
	{"wold mp:7 sa pc rs ss tf:0", "ok w0.7 holding=0"},
}

func main() {
	if len(os.Args) > 1 && os.Args[1] == "-child" {
		childMain(os.Args[2:])
		return
	}
	RegisterOp("wexp", func(a []string) string { return "exp ok" })
	RegisterOp("wold", func(a []string) string {
		req := "wold " + strings.Join(a, " ")
		for _, o := range oldSchedules {
			if o[0] == req {
				return o[1]
			}
		}
		return "unknown historical schedule"
	})
	RegisterOp("c13child", func(a []string) string { // c13child <dseed> <us> <p> <par> <kind:seed,...>
		if len(a) < 5 {
			return "bad-args"
		}
		ds, _ := strconv.Atoi(a[0])
		us, _ := strconv.Atoi(a[1])
		p, _ := strconv.Atoi(a[2])
		par, _ := strconv.Atoi(a[3])
		r := runBatch(delayCfg{ds, us, p}, par, strings.Split(a[4], ","), 120*time.Second)
		var v []string
		for _, o := range r.outs {
			for _, x := range o.Viol {
				v = append(v, fmt.Sprintf("%s:%d %s: %s", o.Kind, o.Seed, x.Sig, x.Observed))
			}
		}
		return fmt.Sprintf("child crash=%q scenarios-reported=%d violations=%v", r.crash, len(r.outs), v)
	})
	Main("C13", c13)
}

func c13(c *Ctx) {
	c.Rule = "fault enumeration in a child process built with the delay overlay: scenarios close-idle / close-early (before the join completes) / close-queued (3..7 commands, the terminal goes after 1-2 were written) / close-outstanding / rst-outstanding / close-afterresp / close-timer (close within +-4 ms of the timer expiry) / notmo (no timeout, released by the disconnect) / mixed, 1..7 callers, timeouts 60-250 ms, under 4 delay configurations (seeded Gosched only, sleeps up to 0.2 / 1 / 3 ms at 30 / 15 / 5 % of the instrumented sites); a case is non-trivial when at least one call was in flight when the terminal went away; distinct = distinct recorded histories"
	for _, o := range oldSchedules {
		c.Do(o[0], false)
	}
	if _, err := child(); err != nil {
		c.Violate(Violation{Signature: "C13/child-build", What: "the server with the delay overlay does not build from the current tree",
			Input: "c13child 1 0 30 1 close-idle:1", Observed: Trunc(err.Error(), 1500), Required: "a child binary"})
		return
	}
	c.Extra["delay_sites"] = nsites
	kinds := []string{"close-idle", "close-early", "close-queued", "close-queued", "close-outstanding", "rst-outstanding",
		"close-afterresp", "close-timer", "close-timer", "notmo", "mixed", "burst"}
	cfgs := []delayCfg{{int(c.Seed), 0, 30}, {int(c.Seed) + 1, 200, 30}, {int(c.Seed) + 2, 1000, 15}, {int(c.Seed) + 3, 3000, 5}}
	per := 3
	if !c.Quick() {
		per = 40
		for i := 0; i < 12; i++ {
			cfgs = append(cfgs, delayCfg{int(c.Seed) + 10 + i, []int{0, 100, 500, 2000}[i%4], []int{50, 30, 10}[i%3]})
		}
	}
	type br struct {
		d    delayCfg
		jobs []string
		r    batchRes
	}
	results := make([]br, len(cfgs))
	var wg sync.WaitGroup
	for i, d := range cfgs {
		var jobs []string
		for _, k := range kinds {
			for j := 0; j < per; j++ {
				jobs = append(jobs, fmt.Sprintf("%s:%d", k, c.Rng.Int63n(90000000)))
			}
		}
		results[i] = br{d: d, jobs: jobs}
		wg.Add(1)
		go func(i int) {
			defer wg.Done()
			results[i].r = runBatch(results[i].d, 8, results[i].jobs, 70*time.Second)
		}(i)
		if i%2 == 1 {
			wg.Wait() // two children at a time
		}
	}
	wg.Wait()
	for _, b := range results {
		c.Count(fmt.Sprintf("delay:us=%d,p=%d", b.d.us, b.d.p))
		if b.r.crash != "" {
			c.Violate(Violation{Signature: "C13/crash", What: "the server process died while terminals were disconnecting",
				Input: batchInput(b.d, 8, b.jobs), Observed: b.r.crash, Required: "the server process keeps running"})
		}
		c.Dist["scenarios-reported"] += len(b.r.outs)
		c.Dist["scenarios-started"] += len(b.jobs)
		sort.Slice(b.r.outs, func(i, j int) bool {
			return b.r.outs[i].Kind+fmt.Sprint(b.r.outs[i].Seed) < b.r.outs[j].Kind+fmt.Sprint(b.r.outs[j].Seed)
		})
		for _, o := range b.r.outs {
			c.Count("scn:" + o.Kind)
			for k, n := range o.Kinds {
				c.Dist["result:"+k] += n
			}
			input := batchInput(b.d, 1, []string{fmt.Sprintf("%s:%d", o.Kind, o.Seed)})
			for _, v := range o.Viol {
				c.Violate(Violation{Signature: "C13/" + v.Sig, What: v.What, Input: input,
					Observed: v.Observed + " | " + o.Desc + " | " + o.Req, Required: v.Required})
			}
			if strings.Contains(o.Req, "/") {
				c.Case(o.Req, "exp ok", o.N > 0 && strings.Contains(o.Req, "T/x/"))
			}
		}
	}
}

package main

// C08 — location reports are decoded as the standard prescribes.
//
// Correspondence: every generated body goes through the real T0x0200 / T0x0704 / T0x0801 Parse (ops p0200,
// p0704, p0801 of lib/ops_location.go) and through the extracted model.
// Direct oracle: an independent reading of JT/T 808-2019 tables 23-32 (below; shares no code with /repo and
// no table with the Coq model) predicts the canonical answer; a difference is a violation with a replayable
// request.  Cargo (two-bit field) and the rendered text (rt=, r26=) are outside the property's statement and
// are masked in the comparison.

import (
	"encoding/binary"
	"fmt"
	"reflect"
	"regexp"
	"sort"
	"strings"

	. "verifh/lib"

	"github.com/cuteLittleDevil/go-jt808/protocol/model"
)

// ---- the standard, written from DESIGN.md Appendix B (tables 24, 25, 27-32) ----
var stdAlarm = map[string]int{"EmergencyAlarm": 0, "OverSpeed": 1, "FatigueDriving": 2, "DangerousAlarm": 3,
	"GNSSModuleFault": 4, "GNSSAntennaFault": 5, "GNSSAntennaShortCircuit": 6, "TerminalPowerSupply": 7,
	"TerminalPowerSupplyShutdown": 8, "TerminalLCDFault": 9, "TTSModuleFault": 10, "CameraFault": 11,
	"ICCardModuleFault": 12, "OverSpeedAlarm": 13, "FatigueDrivingAlarm": 14, "ViolationDrivingAlarm": 15,
	"TirePressureAlarm": 16, "RightTurnBlindAreaAlarm": 17, "DrivingTimeout": 18, "OverTimeStop": 19,
	"InOutArea": 20, "InOutLine": 21, "SectionDrivingTime": 22, "LineDeviation": 23, "VSSFault": 24,
	"OilLevelAbnormality": 25, "StealCar": 26, "LaneDeviation": 27, "LaneOffset": 28, "CollisionAlarm": 29,
	"SideSlipAlarm": 30, "LaneOpeningAlarm": 31}
var stdStatus = map[string]int{"ACC": 0, "Location": 1, "South": 2, "East": 3, "Suspended": 4, "Encryption": 5,
	"EmergencyBrake": 6, "LaneOffset": 7, "Oil": 10, "Electricity": 11, "VehicleDoor": 12, "FrontDoor": 13,
	"MiddleDoor": 14, "BackDoor": 15, "DriverDoor": 16, "CustomDoor": 17, "UseGPS": 18, "UseBD": 19,
	"UseGLONASS": 20, "UseGalileo": 21, "VehicleRunning": 22}
var stdExtSig = map[string]int{"LowBeamSignal": 0, "HighBeamSignal": 1, "RightTurnSignal": 2, "LeftTurnSignal": 3,
	"BrakeSignal": 4, "ReverseGearSignal": 5, "FogLightSignal": 6, "ClearanceLights": 7, "HornSignal": 8,
	"AirConditionerSignal": 9, "NeutralSignal": 10, "RetarderWork": 11, "ABSWork": 12, "HeaterWork": 13,
	"ClutchStatus": 14}
var stdIO = map[string]int{"DeepSleepStatus": 0, "SleepStatus": 1}
var stdLens = map[byte][]int{0x01: {4}, 0x02: {2}, 0x03: {2}, 0x04: {2}, 0x05: {30}, 0x06: {2}, 0x11: {1, 5},
	0x12: {6}, 0x13: {7}, 0x25: {4}, 0x2A: {2}, 0x2B: {4}, 0x30: {1}, 0x31: {1}}

// flags in the declaration order of the Go struct, each member = the standard's bit of its NAME
func stdFlagString(typ any, table map[string]int, w uint64) string {
	rt := reflect.TypeOf(typ)
	var sb strings.Builder
	for i := 0; i < rt.NumField(); i++ {
		if bit, ok := table[rt.Field(i).Name]; ok && rt.Field(i).Type.Kind() == reflect.Bool && w>>uint(bit)&1 == 1 {
			sb.WriteByte('1')
		} else {
			sb.WriteByte('0')
		}
	}
	return sb.String()
}

func stdTime(b []byte) string { // BCD[6] -> "20YY-MM-DD hh:mm:ss", one decimal digit per nibble
	d := func(x byte) string { return string([]byte{'0' + x>>4, '0' + x&15}) }
	return "20" + d(b[0]) + "-" + d(b[1]) + "-" + d(b[2]) + " " + d(b[3]) + ":" + d(b[4]) + ":" + d(b[5])
}

func stdLocDump(b []byte) string {
	alarm := binary.BigEndian.Uint32(b[0:])
	status := binary.BigEndian.Uint32(b[4:])
	return fmt.Sprintf("alarm=%d status=%d lat=%d lon=%d alt=%d speed=%d dir=%d time=%s af=%s sf=%s cargo=*",
		alarm, status, binary.BigEndian.Uint32(b[8:]), binary.BigEndian.Uint32(b[12:]), binary.BigEndian.Uint16(b[16:]),
		binary.BigEndian.Uint16(b[18:]), binary.BigEndian.Uint16(b[20:]), Hx([]byte(stdTime(b[22:28]))),
		stdFlagString(model.AlarmSignDetails{}, stdAlarm, uint64(alarm)),
		stdFlagString(model.StatusSignDetails{}, stdStatus, uint64(status)))
}

type item struct {
	id      byte
	content []byte
}

func (it item) wire() []byte { return append([]byte{it.id, byte(len(it.content))}, it.content...) }

func be(b []byte) uint64 {
	var v uint64
	for _, x := range b {
		v = v<<8 | uint64(x)
	}
	return v
}

func lenAdmissible(it item) bool {
	ls, ok := stdLens[it.id]
	if !ok {
		return true
	}
	for _, l := range ls {
		if l == len(it.content) {
			return true
		}
	}
	return false
}

// the value the standard assigns to an item with an admissible length, in the dump's vocabulary
func stdValDump(it item) string {
	var p []string
	add := func(k string, v uint64) {
		if v != 0 {
			p = append(p, fmt.Sprintf("%s=%d", k, v))
		}
	}
	c := it.content
	switch it.id {
	case 0x01:
		add("mile", be(c))
	case 0x02:
		add("oil", be(c))
	case 0x03:
		add("speed", be(c))
	case 0x04:
		add("manual", be(c))
	case 0x05:
		var t []string
		for pos, v := range c {
			if v != 0 {
				t = append(t, fmt.Sprintf("%d.%d", pos, v))
			}
		}
		if len(t) > 0 {
			p = append(p, "tire="+strings.Join(t, "+"))
		}
	case 0x06:
		add("temp", be(c))
	case 0x11:
		add("os.ty", uint64(c[0]))
		if c[0] != 0 && len(c) == 5 {
			add("os.area", be(c[1:5]))
		}
	case 0x12:
		add("ar.ty", uint64(c[0]))
		add("ar.area", be(c[1:5]))
		add("ar.dir", uint64(c[5]))
	case 0x13:
		add("dt.id", be(c[0:4]))
		add("dt.time", be(c[4:6]))
		add("dt.res", uint64(c[6]))
	case 0x25:
		add("ext.value", be(c))
		if f := stdFlagString(model.AdditionExtendVehicleStatus{}, stdExtSig, be(c)); strings.Contains(f, "1") {
			p = append(p, "ext.flags="+f)
		}
	case 0x2A:
		add("io.value", be(c))
		if f := stdFlagString(model.AdditionIOStatus{}, stdIO, be(c)); strings.Contains(f, "1") {
			p = append(p, "io.flags="+f)
		}
	case 0x2B:
		add("analog", be(c))
	case 0x30:
		add("wifi", uint64(c[0]))
	case 0x31:
		add("gnss", uint64(c[0]))
	}
	return strings.Join(p, ",")
}

// expected additions dump of a sequence of items, or "err 4" if some length is inadmissible
func stdAddsDump(items []item) (string, bool) {
	last := map[byte]item{}
	for _, it := range items {
		if !lenAdmissible(it) {
			return "", false
		}
		last[it.id] = it
	}
	ks := make([]int, 0)
	for k := range last {
		ks = append(ks, int(k))
	}
	sort.Ints(ks)
	var p []string
	for _, k := range ks {
		it := last[byte(k)]
		p = append(p, fmt.Sprintf("%d/%d:%d:%s:%s", k, k, len(it.content), Hx(it.content), stdValDump(it)))
	}
	return "adds=[" + strings.Join(p, ";") + "]", true
}

// a report body = block + items, and what the standard makes of it (without the "ok " prefix)
func stdReport(block []byte, items []item) (body []byte, want string, ok bool) {
	body = append([]byte{}, block...)
	for _, it := range items {
		body = append(body, it.wire()...)
	}
	adds, ok := stdAddsDump(items)
	if !ok {
		return body, "err 4", false
	}
	return body, stdLocDump(block) + " " + adds, true
}

var reMask = regexp.MustCompile(` cargo=[0-9*]+| rt=[0-9a-f,\-]*| r26=[0-9a-f\-]*`)

func mask(s string) string { return reMask.ReplaceAllString(s, "") }

// has0x11Area: the retained 0x11 item of a sequence carries an area id (class of the known finding)
func has0x11Area(items []item) bool {
	r := false
	for _, it := range items {
		if it.id == 0x11 {
			r = len(it.content) == 5 && it.content[0] != 0
		}
	}
	return r
}

func main() {
	Main("C08", c08)
}

func c08(c *Ctx) {
	c.Rule = "28-byte blocks with all single bits and pairs of bits of the alarm and status words (and random words), every standard item id x every length 0..40, unknown ids, duplicates, sequences of 1..8 items, truncated and over-long items, each inside 0x0200, 0x0704 items and 0x0801; expected answers from an independent reading of tables 23-32; a case is non-trivial when the body reaches field extraction (>= 28 bytes for 0x0200, >= 31 for 0x0704, >= 36 for 0x0801); distinct = distinct request"
	rng := c.Rng
	quick := c.Quick()

	randBlock := func() []byte {
		b := make([]byte, 28)
		rng.Read(b)
		switch rng.Intn(3) {
		case 0: // a plausible BCD time
			copy(b[22:], []byte{0x24, byte(1 + rng.Intn(9)), byte(0x10 + rng.Intn(10)), byte(rng.Intn(10)), byte(0x30 + rng.Intn(10)), 0x59})
		case 1: // sparse flag words
			binary.BigEndian.PutUint32(b[0:], 1<<uint(rng.Intn(32)))
			binary.BigEndian.PutUint32(b[4:], 1<<uint(rng.Intn(32))|1<<uint(rng.Intn(32)))
		}
		return b
	}
	randContent := func(n int) []byte {
		b := make([]byte, n)
		rng.Read(b)
		if rng.Intn(5) == 0 {
			for i := range b {
				b[i] = 0
			}
		}
		if rng.Intn(5) == 0 && n > 0 {
			b[0] = 0
		}
		return b
	}
	stdIDs := []byte{0x01, 0x02, 0x03, 0x04, 0x05, 0x06, 0x11, 0x12, 0x13, 0x25, 0x2A, 0x2B, 0x30, 0x31}
	randAdmissible := func() item {
		switch rng.Intn(8) {
		case 0: // unknown id
			id := byte(rng.Intn(256))
			if _, ok := stdLens[id]; ok {
				id = 0xE0
			}
			return item{id, randContent(rng.Intn(12))}
		default:
			id := stdIDs[rng.Intn(len(stdIDs))]
			ls := stdLens[id]
			return item{id, randContent(ls[rng.Intn(len(ls))])}
		}
	}

	// check one 0x0200 case against the standard's prediction
	// every report is also parsed on a receiver that has just parsed the PREVIOUS report of the run (the server keeps
	// one handler value per command and connection): the decoded report may not depend on it - flags, items and
	// times of the earlier report must not survive.  Implementation-only (replay op seq0200 <previous> <this>).
	var prev0200, prevAllSet []byte
	reused := func(kind string, prev, body []byte, fresh string) {
		if prev == nil {
			return
		}
		if again := LocParseSeq(kind, [][]byte{prev, body}); again != fresh {
			c.Violate(Violation{Signature: "C08/reused-receiver-" + kind, What: "a report decodes differently on a receiver that parsed another report before",
				Input: "seq" + kind + " " + Hx(prev) + " " + Hx(body), Observed: again, Required: fresh})
		}
	}
	check0200 := func(what string, block []byte, items []item) {
		body, want, ok := stdReport(block, items)
		ans := c.Do("p0200 "+Hx(body), len(body) >= 28)
		reused("0200", prev0200, body, ans)
		if prevAllSet == nil { // a report with every alarm and status bit set and every standard item present
			all := append([]byte{0xff, 0xff, 0xff, 0xff, 0xff, 0xff, 0xff, 0xff}, body[8:min(len(body), 28)]...)
			if len(all) == 28 {
				prevAllSet = all
			}
		}
		reused("0200", prevAllSet, body, ans)
		if strings.HasPrefix(ans, "ok ") {
			prev0200 = body
		}
		c.Count(what + ":" + firstWord(ans))
		exp := "err 4"
		if ok {
			exp = "ok " + want
		}
		if mask(ans) != mask(exp) {
			sig := "C08/" + what
			if has0x11Area(items) && strings.HasPrefix(ans, "ok ") {
				sig = "C08/0x11-areaid"
			}
			c.Violate(Violation{Signature: sig, What: "T0x0200.Parse differs from the standard's reading",
				Input: "p0200 " + Hx(body), Observed: ans, Required: exp})
		}
	}

	// (1) flag words: zero, all ones, every single bit, every pair of bits, of both words
	words := []uint32{0, 0xFFFFFFFF}
	for i := 0; i < 32; i++ {
		words = append(words, 1<<uint(i))
		for j := i + 1; j < 32; j++ {
			words = append(words, 1<<uint(i)|1<<uint(j))
		}
	}
	for _, w := range words {
		b := randBlock()
		binary.BigEndian.PutUint32(b[0:], w)
		check0200("alarm-bits", b, nil)
		b = randBlock()
		binary.BigEndian.PutUint32(b[4:], w)
		check0200("status-bits", b, nil)
	}
	nrand := 2000
	if !quick {
		nrand = 300000
	}
	for i := 0; i < nrand; i++ {
		check0200("block", randBlock(), nil)
	}
	// boundary blocks
	for _, fill := range []byte{0x00, 0xFF, 0x99, 0xAA} {
		b := make([]byte, 28)
		for i := range b {
			b[i] = fill
		}
		check0200("block", b, nil)
	}
	// bodies shorter than the block
	for n := 0; n < 28; n++ {
		b := randBlock()[:n]
		ans := c.Do("p0200 "+Hx(b), false)
		if ans != "err 4" {
			c.Violate(Violation{Signature: "C08/short-block", What: "a body shorter than 28 bytes must be rejected",
				Input: "p0200 " + Hx(b), Observed: ans, Required: "err 4"})
		}
	}

	// (2) items: every standard id x every length 0..40 (and unknown ids), alone
	reps := 2
	if !quick {
		reps = 20
	}
	ids := append([]byte{}, stdIDs...)
	ids = append(ids, 0x00, 0x07, 0x0F, 0x10, 0x14, 0x24, 0x26, 0x29, 0x2C, 0x2F, 0x32, 0x33, 0x64, 0x65, 0x66, 0x67, 0x70, 0xE0, 0xFF)
	for _, id := range ids {
		for n := 0; n <= 40; n++ {
			for r := 0; r < reps; r++ {
				check0200(fmt.Sprintf("item-%02x", id), randBlock(), []item{{id, randContent(n)}})
			}
		}
	}
	// every id 0..255 at a few lengths
	for id := 0; id < 256; id++ {
		for _, n := range []int{0, 1, 2, 4, 5, 6, 7, 30, 255} {
			check0200("item-any", randBlock(), []item{{byte(id), randContent(n)}})
		}
	}
	// 0x11 in all its forms
	for ty := 0; ty < 6; ty++ {
		check0200("item-11", randBlock(), []item{{0x11, []byte{byte(ty)}}})
		check0200("item-11", randBlock(), []item{{0x11, []byte{byte(ty), 0, 0, 0, 0x42}}})
		check0200("item-11", randBlock(), []item{{0x11, []byte{byte(ty), 0x42, 0, 0, 0}}})
	}
	// 0x25 / 0x2A: every single bit
	for i := 0; i < 32; i++ {
		v := make([]byte, 4)
		binary.BigEndian.PutUint32(v, 1<<uint(i))
		check0200("item-25-bit", randBlock(), []item{{0x25, v}})
	}
	for i := 0; i < 16; i++ {
		v := make([]byte, 2)
		binary.BigEndian.PutUint16(v, 1<<uint(i))
		check0200("item-2a-bit", randBlock(), []item{{0x2A, v}})
	}
	// sequences, duplicates, one bad item among good ones
	nseq := 1500
	if !quick {
		nseq = 150000
	}
	for i := 0; i < nseq; i++ {
		k := 1 + rng.Intn(8)
		var items []item
		for j := 0; j < k; j++ {
			it := randAdmissible()
			if j > 0 && rng.Intn(4) == 0 { // duplicate id with fresh content
				prev := items[rng.Intn(len(items))]
				it = item{prev.id, randContent(len(prev.content))}
			}
			items = append(items, it)
		}
		what := "sequence"
		if rng.Intn(5) == 0 { // spoil one item's length
			j := rng.Intn(len(items))
			id := stdIDs[rng.Intn(len(stdIDs))]
			n := rng.Intn(41)
			items[j] = item{id, randContent(n)}
			what = "sequence-spoiled"
		}
		check0200(what, randBlock(), items)
	}
	// truncations of a valid body at every position; declared length beyond the body
	for i := 0; i < 20; i++ {
		var items []item
		for j := 0; j < 1+rng.Intn(4); j++ {
			items = append(items, randAdmissible())
		}
		blk := randBlock()
		body, _, _ := stdReport(blk, items)
		for n := 28; n < len(body); n++ {
			cut := body[:n]
			// expected: the items that are complete, then an error unless the cut falls on an item boundary
			var done []item
			pos, boundary := 28, false
			for _, it := range items {
				if pos == n {
					boundary = true
					break
				}
				if pos+len(it.wire()) > n {
					break
				}
				done = append(done, it)
				pos += len(it.wire())
			}
			if pos == n {
				boundary = true
			}
			ans := c.Do("p0200 "+Hx(cut), true)
			exp := "err 4"
			if boundary {
				_, w, ok := stdReport(blk, done)
				if ok {
					exp = "ok " + w
				}
			}
			c.Count("truncated:" + firstWord(ans))
			if mask(ans) != mask(exp) && !(has0x11Area(done) && strings.HasPrefix(ans, "ok ")) {
				c.Violate(Violation{Signature: "C08/truncated", What: "truncated report: complete items decoded or rejected",
					Input: "p0200 " + Hx(cut), Observed: ans, Required: exp})
			}
		}
	}

	// (3) carriers
	ncar := 300
	if !quick {
		ncar = 30000
	}
	for i := 0; i < ncar; i++ {
		// 0x0704
		k := 1 + rng.Intn(4)
		var parts []string
		body := []byte{0, byte(k), byte(rng.Intn(2))}
		good, class := true, false
		for j := 0; j < k; j++ {
			var items []item
			for x := 0; x < rng.Intn(4); x++ {
				items = append(items, randAdmissible())
			}
			if rng.Intn(12) == 0 {
				// one item of a standard id with an arbitrary (mostly wrong) length at ANY position of ANY report;
				// the reports after it stay in the body: the whole 0x0704 must still be rejected
				bad := item{stdIDs[rng.Intn(len(stdIDs))], randContent(rng.Intn(41))}
				at := rng.Intn(len(items) + 1)
				items = append(items[:at:at], append([]item{bad}, items[at:]...)...)
				c.Count("0704:spoiled-item")
			}
			rb, w, ok := stdReport(randBlock(), items)
			class = class || has0x11Area(items)
			body = binary.BigEndian.AppendUint16(body, uint16(len(rb)))
			body = append(body, rb...)
			if !ok {
				good = false
			}
			parts = append(parts, fmt.Sprintf("len=%d %s", len(rb), w))
		}
		exp := "err 4"
		if good {
			exp = fmt.Sprintf("ok num=%d type=%d items=[%s]", k, body[2], strings.Join(parts, " | "))
		}
		ans := c.Do("p0704 "+Hx(body), len(body) >= 31)
		c.Count("0704:" + firstWord(ans))
		if mask(ans) != mask(exp) {
			sig := "C08/carrier-0704"
			if class && strings.HasPrefix(ans, "ok ") {
				sig = "C08/0x11-areaid"
			}
			c.Violate(Violation{Signature: sig, What: "T0x0704.Parse differs from the standard's reading of its items",
				Input: "p0704 " + Hx(body), Observed: ans, Required: exp})
		}
		// count larger than the items present: rejected
		if good && i%10 == 0 {
			b2 := append([]byte{}, body...)
			b2[1]++
			ans := c.Do("p0704 "+Hx(b2), len(b2) >= 31)
			if ans != "err 4" {
				c.Violate(Violation{Signature: "C08/carrier-0704-count", What: "count larger than the items present must be rejected",
					Input: "p0704 " + Hx(b2), Observed: ans, Required: "err 4"})
			}
		}
		// 0x0801
		blk := randBlock()
		pkg := randContent(rng.Intn(20))
		b8 := make([]byte, 8)
		rng.Read(b8)
		body8 := append(append(append([]byte{}, b8...), blk...), pkg...)
		exp8 := fmt.Sprintf("ok id=%d type=%d fmt=%d event=%d chan=%d %s pkg=%s", binary.BigEndian.Uint32(b8), b8[4], b8[5], b8[6], b8[7],
			stdLocDump(blk), Hx(pkg))
		ans8 := c.Do("p0801 "+Hx(body8), true)
		c.Count("0801:" + firstWord(ans8))
		if mask(ans8) != mask(exp8) {
			c.Violate(Violation{Signature: "C08/carrier-0801", What: "T0x0801.Parse differs from the standard's reading of bytes 8..36",
				Input: "p0801 " + Hx(body8), Observed: ans8, Required: exp8})
		}
	}
	for n := 0; n < 36; n++ {
		b := randContent(n)
		if ans := c.Do("p0801 "+Hx(b), false); ans != "err 4" {
			c.Violate(Violation{Signature: "C08/carrier-0801-short", What: "0x0801 shorter than 36 bytes must be rejected",
				Input: "p0801 " + Hx(b), Observed: ans, Required: "err 4"})
		}
	}

	// (3b) source-literal dictionary: every pair of "magic" constants that occur in the anchored source files
	// (as the tree under check has them NOW), at every pair of adjacent byte positions of the fixed part of the
	// three carriers, the 0x0801 format byte running over the same constants - a comparison of input bytes
	// against constants is reached whatever the constants are
	lits := SourceLiterals("protocol/model/t_0x0200.go", "protocol/model/t_0x0200_location_item.go",
		"protocol/model/t_0x0200_addition.go", "protocol/model/t_0x0704.go", "protocol/model/t_0x0801.go")
	magic := []byte{0, 1, 0xFF}
	for _, v := range lits {
		if v >= 32 && v <= 255 {
			magic = append(magic, byte(v))
		}
	}
	if quick && len(magic) > 24 {
		magic = magic[:24]
	}
	c.Count(fmt.Sprintf("dictionary-size:%d", len(magic)))
	for p := 0; p+1 < 36; p++ {
		for _, a := range magic {
			for _, b := range magic {
				for _, f := range magic {
					if quick && f > 2 && p != 8 && rng.Intn(4) != 0 { // quick: thin out the format byte away from the block start
						continue
					}
					b8 := make([]byte, 8)
					rng.Read(b8)
					blk := randBlock()
					body8 := append(append([]byte{}, b8...), blk...)
					body8[5] = f
					body8[p], body8[p+1] = a, b
					pkg := randContent(rng.Intn(4))
					body8 = append(body8, pkg...)
					exp8 := fmt.Sprintf("ok id=%d type=%d fmt=%d event=%d chan=%d %s pkg=%s", binary.BigEndian.Uint32(body8), body8[4], body8[5], body8[6], body8[7],
						stdLocDump(body8[8:36]), Hx(pkg))
					ans8 := c.Do("p0801 "+Hx(body8), true)
					if mask(ans8) != mask(exp8) {
						c.Violate(Violation{Signature: "C08/carrier-0801-dictionary", What: "T0x0801.Parse differs from the standard's reading of bytes 8..36",
							Input: "p0801 " + Hx(body8), Observed: ans8, Required: exp8})
					}
				}
				if p+1 < 28 {
					blk := randBlock()
					blk[p], blk[p+1] = a, b
					check0200("dictionary", blk, nil)
				}
			}
		}
	}
	c.Count("dictionary")

	// (4) thorough only: many more alarm / status words through the real parse, direct oracle only
	if !quick {
		t := &model.T0x0200LocationItem{}
		_ = t
		for i := 0; i < 2000000; i++ {
			b := make([]byte, 28)
			binary.BigEndian.PutUint32(b[0:], rng.Uint32())
			binary.BigEndian.PutUint32(b[4:], rng.Uint32())
			ans := LocParse("0200", b, nil)
			c.Eval("w"+Hx(b[:8]), true)
			if mask(ans) != mask("ok "+stdLocDump(b)+" adds=[]") {
				c.Violate(Violation{Signature: "C08/flag-words", What: "flag words differ from tables 24/25",
					Input: "p0200 " + Hx(b), Observed: ans, Required: "ok " + stdLocDump(b) + " adds=[]"})
			}
		}
	}
}

func firstWord(s string) string {
	for i := 0; i < len(s); i++ {
		if s[i] == ' ' {
			if s[:i] == "err" {
				return s
			}
			return s[:i]
		}
	}
	return s
}

package main

// C16 — the attachment completion report lists exactly the missing byte ranges.
//
// ops (implementation side; the model side is oracle/drv_c16.ml):
//   miss <size> <cur> <o+l,...|->          Package.StatisticalMissSegments (exported, called directly)
//   reply1212 <0x1212-body-hex> <o+l,..>   T0x1212.Parse + ReplyBody with that retransmit list
//   parse9212 <0x9212-body-hex>            P0x9212.Parse on a fresh receiver
//   att <dialect> <segment-hex>...         the socket path: one real attachment connection (lib/ops_attach.go)

import (
	"fmt"
	"sort"
	"strconv"
	"strings"

	. "verifh/lib"

	"github.com/cuteLittleDevil/go-jt808/attachment"
	"github.com/cuteLittleDevil/go-jt808/protocol/jt808"
	"github.com/cuteLittleDevil/go-jt808/protocol/model"
)

func parseSegs(s string) []seg {
	if s == "-" {
		return nil
	}
	var out []seg
	for _, t := range strings.Split(s, ",") {
		ol := strings.Split(t, "+")
		o, _ := strconv.ParseUint(ol[0], 10, 32)
		l, _ := strconv.ParseUint(ol[1], 10, 32)
		out = append(out, seg{uint32(o), uint32(l)})
	}
	return out
}

func fromModel(l []model.P0x9212RetransmitPacket) []seg {
	var out []seg
	for _, x := range l {
		out = append(out, seg{x.DataOffset, x.DataLength})
	}
	return out
}

func toModel(l []seg) []model.P0x9212RetransmitPacket {
	var out []model.P0x9212RetransmitPacket
	for _, x := range l {
		out = append(out, model.P0x9212RetransmitPacket{DataOffset: x.O, DataLength: x.L})
	}
	return out
}

func opMiss(a []string) (ans string) {
	defer func() {
		if r := recover(); r != nil {
			ans = "panic"
		}
	}()
	size, _ := strconv.ParseUint(a[0], 10, 32)
	cur, _ := strconv.ParseUint(a[1], 10, 32)
	p := &attachment.Package{FileSize: uint32(size), CurrentSize: uint32(cur), OffsetRecord: map[int]int{}}
	for _, s := range parseSegs(a[2]) {
		p.OffsetRecord[int(s.O)] = int(s.L)
	}
	return "ok " + segsStr(fromModel(p.StatisticalMissSegments()))
}

func opReply1212(a []string) (ans string) {
	defer func() {
		if r := recover(); r != nil {
			ans = "panic"
		}
	}()
	t := &model.T0x1212{}
	jt := &jt808.JTMessage{Header: &jt808.Header{}, Body: Exact(Unhx(a[0]))}
	if err := t.Parse(jt); err != nil {
		return ProtoErrCode(err)
	}
	t.P0x9212RetransmitPacketList = toModel(parseSegs(a[1]))
	body, err := t.ReplyBody(jt)
	if err != nil {
		return "err ?"
	}
	return "ok " + Hx(body)
}

func opParse9212(a []string) (ans string) {
	defer func() {
		if r := recover(); r != nil {
			ans = "panic"
		}
	}()
	p := &model.P0x9212{}
	jt := &jt808.JTMessage{Header: &jt808.Header{}, Body: Exact(Unhx(a[0]))}
	if err := p.Parse(jt); err != nil {
		return ProtoErrCode(err)
	}
	return fmt.Sprintf("ok nl=%d name=%s type=%d res=%d cnt=%d list=%s", p.FileNameLen, Hx([]byte(p.FileName)),
		p.FileType, p.UploadResult, p.RetransmitPacketNumber, segsStr(fromModel(p.P0x9212RetransmitPacketList)))
}

// ---- independent references: lib.RefGaps, lib.Ref9212 ------------------------------------

type seg = AttSeg

func segsStr(s []seg) string { return AttSegsStr(s) }
func refGaps(size uint64, chunks []seg) []seg { return RefGaps(size, chunks) }
func ref9212(b []byte) (name []byte, typ, res byte, cnt int, list []seg, ok bool) { return Ref9212(b) }
func eqSegs(a, b []seg) bool { return AttSegsEq(a, b) }

func sumLen(ch []seg) uint64 {
	var s uint64
	for _, c := range ch {
		s += uint64(c.L)
	}
	return s
}

// attModel: the oracle of C16 includes the upload model (op att)
const attModel = true

func main() {
	RegisterOp("miss", opMiss)
	RegisterOp("reply1212", opReply1212)
	RegisterOp("parse9212", opParse9212)
	Main("C16", c16)
}

func c16(c *Ctx) {
	c.Rule = "chunk sets of a file: exhaustively every subset of unit cells of files of size <= 10 (quick) / 12 (thorough) with every merge of adjacent received cells into chunks, listed in random order; random large files (sizes up to 2^32-1) with gaps at start/middle/end, adjacent chunks, single-byte gaps, 255/256/300 gaps; out-of-domain inputs (overlaps, zero-length chunks, stale CurrentSize, uint32 wrap) for the correspondence only; the same situations over a real connection (0x1210, chunks, 0x1212, resend, 0x1212): equal-cell files with duplicated lost and received cells, 2019 headers, merged writes, up to 120 gaps, and `over` sessions of 127..255 gaps whose reply frames are handed to the real decoder (known finding C16/socket/reply-over-1023). A case is non-trivial when at least one chunk was received and at least one byte is missing; distinct = distinct request lines"
	rng := c.Rng
	shuffle := func(ch []seg) []seg {
		out := append([]seg{}, ch...)
		rng.Shuffle(len(out), func(i, j int) { out[i], out[j] = out[j], out[i] })
		return out
	}
	nameBody := func() []byte {
		n := rng.Intn(6)
		if rng.Intn(20) == 0 {
			n = 255
		}
		nm := make([]byte, n)
		rng.Read(nm)
		return nm
	}
	// inDomain: one chunk set inside the property's domain: pure call, resend, wire
	inDomain := func(size uint64, chunks []seg, what string) {
		ch := shuffle(chunks)
		cur := sumLen(ch)
		want := refGaps(size, ch)
		nontriv := len(ch) > 0 && len(want) > 0
		req := fmt.Sprintf("miss %d %d %s", size, cur, segsStr(ch))
		ans := c.Do(req, nontriv)
		c.Count(what)
		if ans != "ok "+segsStr(want) {
			c.Violate(Violation{Signature: "C16/pure/" + what, What: "StatisticalMissSegments differs from the maximal missing ranges",
				Input: req, Observed: ans, Required: "ok " + segsStr(want)})
			return
		}
		if (len(want) == 0) != (cur == size) {
			c.Violate(Violation{Signature: "C16/complete-iff", What: "'complete' must be reported exactly when every byte has arrived",
				Input: req, Observed: ans, Required: fmt.Sprintf("empty iff received %d == size %d", cur, size)})
		}
		// resend: the reported ranges are received as well -> complete
		if len(want) > 0 {
			all := append(append([]seg{}, ch...), want...)
			req2 := fmt.Sprintf("miss %d %d %s", size, sumLen(all), segsStr(shuffle(all)))
			if a2 := c.Do(req2, false); a2 != "ok -" {
				c.Violate(Violation{Signature: "C16/resend", What: "after the reported ranges were resent the report must be 'complete'",
					Input: req2, Observed: a2, Required: "ok -"})
			}
			// the same with a stale CurrentSize: the loop alone must find nothing missing
			req3 := fmt.Sprintf("miss %d %d %s", size, cur, segsStr(shuffle(all)))
			if a3 := c.Do(req3, false); a3 != "ok -" {
				c.Violate(Violation{Signature: "C16/resend-loop", What: "with every byte received the range loop must report nothing",
					Input: req3, Observed: a3, Required: "ok -"})
			}
		}
		// wire
		nm := nameBody()
		body := Body1211(nm, byte(rng.Intn(5)), uint32(size))
		reqw := fmt.Sprintf("reply1212 %s %s", Hx(body), segsStr(want))
		answ := c.Do(reqw, nontriv)
		if !strings.HasPrefix(answ, "ok ") {
			c.Violate(Violation{Signature: "C16/wire/reply", What: "0x1212 reply body not produced", Input: reqw, Observed: answ, Required: "ok <body>"})
			return
		}
		rb := Unhx(answ[3:])
		if len(want) <= 255 {
			rn, _, res, cnt, list, ok := ref9212(rb)
			wantRes := byte(0)
			if len(want) > 0 {
				wantRes = 1
			}
			if !ok || string(rn) != string(nm) || res != wantRes || cnt != len(want) || !eqSegs(list, want) {
				c.Violate(Violation{Signature: "C16/wire/body", What: "0x9212 body does not carry (flag, count, ranges) as prescribed",
					Input: reqw, Observed: answ, Required: fmt.Sprintf("result=%d count=%d ranges=%s", wantRes, len(want), segsStr(want))})
			}
			// the library's own parser reads it back
			reqp := "parse9212 " + Hx(rb)
			ansp := c.Do(reqp, nontriv)
			wantp := fmt.Sprintf("ok nl=%d name=%s type=%d res=%d cnt=%d list=%s", len(nm), Hx(nm), body[1+len(nm)], wantRes, len(want), segsStr(want))
			if ansp != wantp {
				c.Violate(Violation{Signature: "C16/wire/parse", What: "P0x9212.Parse does not read back the ranges T0x1212.ReplyBody wrote",
					Input: reqp, Observed: ansp, Required: wantp})
			}
		} else {
			c.Do("parse9212 "+Hx(rb), false)
		}
	}

	// (1) exhaustive small scope
	maxSize := 10
	if !c.Quick() {
		maxSize = 12
	}
	nex := 0
	for size := 1; size <= maxSize; size++ {
		// cell states: 0 missing, 1 first cell of a chunk, 2 continuation of the chunk
		var rec func(pos int, prev int, chunks []seg)
		rec = func(pos int, prev int, chunks []seg) {
			if pos == size {
				nex++
				inDomain(uint64(size), chunks, "exhaustive")
				return
			}
			rec(pos+1, 0, chunks)
			rec(pos+1, 1, append(append([]seg{}, chunks...), seg{uint32(pos), 1}))
			if prev != 0 {
				ch := append([]seg{}, chunks...)
				ch[len(ch)-1].L++
				rec(pos+1, 2, ch)
			}
		}
		rec(0, 0, nil)
	}
	c.Extra["exhaustive_chunk_sets"] = nex
	c.Extra["exhaustive_max_size"] = maxSize
	c.Exhaustive = true

	// (2) random large and shaped
	randomChunks := func(size uint64, k int, unitGaps bool) []seg {
		// 2k distinct sorted points in [0,size]: alternate chunk / gap boundaries
		pts := map[uint64]bool{}
		for len(pts) < 2*k && uint64(len(pts)) < size {
			pts[uint64(rng.Int63n(int64(size)+1))] = true
		}
		var ps []uint64
		for p := range pts {
			ps = append(ps, p)
		}
		sort.Slice(ps, func(i, j int) bool { return ps[i] < ps[j] })
		var ch []seg
		for i := 0; i+1 < len(ps); i += 2 {
			if ps[i+1] > ps[i] {
				ch = append(ch, seg{uint32(ps[i]), uint32(ps[i+1] - ps[i])})
			}
		}
		if unitGaps { // chunks separated by single-byte gaps and adjacent chunks
			ch = nil
			pos := uint64(rng.Intn(3))
			for i := 0; i < k && pos < size; i++ {
				l := uint64(1 + rng.Intn(5))
				if pos+l > size {
					l = size - pos
				}
				ch = append(ch, seg{uint32(pos), uint32(l)})
				pos += l + uint64(rng.Intn(2))
			}
		}
		return ch
	}
	nrand := 1500
	if !c.Quick() {
		nrand = 60000
	}
	for i := 0; i < nrand; i++ {
		var size uint64
		switch rng.Intn(4) {
		case 0:
			size = uint64(1 + rng.Intn(200))
		case 1:
			size = uint64(1 + rng.Intn(1<<20))
		case 2:
			size = uint64(1)<<32 - 1 - uint64(rng.Intn(1000))
		default:
			size = uint64(1 + rng.Int63n(1<<32-1))
		}
		k := rng.Intn(12)
		ch := randomChunks(size, k, rng.Intn(3) == 0)
		what := "random"
		switch rng.Intn(6) {
		case 0: // gap at the start only
			if len(ch) > 0 {
				ch = []seg{{ch[0].O, uint32(size - uint64(ch[0].O))}}
				what = "gap-start"
			}
		case 1: // gap at the end only
			if len(ch) > 0 && ch[0].L > 0 {
				ch = []seg{{0, ch[0].L}}
				what = "gap-end"
			}
		case 2: // complete, in several adjacent chunks
			ch = nil
			pos := uint64(0)
			for pos < size {
				l := uint64(1 + rng.Int63n(int64(size-pos)))
				if len(ch) > 8 {
					l = size - pos
				}
				ch = append(ch, seg{uint32(pos), uint32(l)})
				pos += l
			}
			what = "complete"
		}
		inDomain(size, ch, what)
	}
	// many gaps: 254, 255 (the count byte's limit), 256 and 300 (count wraps: outside the property, modelled)
	for _, g := range []int{1, 2, 254, 255, 256, 300} {
		var ch []seg
		for i := 0; i < g-1; i++ {
			ch = append(ch, seg{uint32(2*i + 1), 1})
		}
		size := uint64(2*(g-1) + 1)
		if g == 1 {
			size = 7
		}
		inDomain(size, ch, fmt.Sprintf("gaps-%d", g))
	}

	// (3) outside the domain: correspondence of the mechanism only
	nout := 1500
	if !c.Quick() {
		nout = 40000
	}
	for i := 0; i < nout; i++ {
		size := uint64(rng.Intn(40))
		if rng.Intn(5) == 0 {
			size = uint64(rng.Int63n(1 << 32))
		}
		k := rng.Intn(6)
		offs := map[uint32]bool{}
		var ch []seg
		for j := 0; j < k; j++ {
			o := uint32(rng.Intn(45))
			l := uint32(rng.Intn(12)) // zero-length chunks included
			if rng.Intn(8) == 0 {
				o = uint32(rng.Int63n(1 << 32))
				l = uint32(rng.Int63n(1 << 32)) // o+l may wrap in uint32
			}
			if !offs[o] {
				offs[o] = true
				ch = append(ch, seg{o, l})
			}
		}
		cur := sumLen(ch)
		switch rng.Intn(4) {
		case 0:
			cur = size // early exit whatever the records say
		case 1:
			cur = uint64(rng.Intn(50))
		}
		c.Do(fmt.Sprintf("miss %d %d %s", size, cur&0xffffffff, segsStr(ch)), false)
		c.Count("out-of-domain")
	}
	// malformed 0x1212 / 0x9212 bodies
	for i := 0; i < nout/3; i++ {
		b := make([]byte, rng.Intn(30))
		rng.Read(b)
		if len(b) > 0 && rng.Intn(2) == 0 {
			b[0] = byte(rng.Intn(len(b) + 2))
		}
		if len(b) > 0 && rng.Intn(3) == 0 && int(b[0])+3 < len(b) {
			b[3+int(b[0])] = byte((len(b) - 4 - int(b[0])) / 8)
		}
		c.Do("parse9212 "+Hx(b), false)
		c.Do(fmt.Sprintf("reply1212 %s %s", Hx(b), segsStr(randomChunks(50, rng.Intn(3), false))), false)
		c.Count("malformed-body")
	}

	// (4) the socket path: 0x1210, chunks in random order, 0x1212 -> 0x9212; resend; 0x1212 -> complete
	nsock := 250
	if !c.Quick() {
		nsock = 6000
	}
	bcd13 := []byte{0x01, 0x38, 0x00, 0x13, 0x80, 0x00}
	bcd19 := []byte{0, 0, 0, 0, 0x01, 0x38, 0x00, 0x13, 0x80, 0x00}
	overN := 0
	for i := 0; i < nsock; i++ {
		d := AttDialects[rng.Intn(len(AttDialects))]
		v2019 := i%3 == 1
		bcd := bcd13
		if v2019 {
			bcd = bcd19
		}
		size := uint64(1 + rng.Intn(40))
		if rng.Intn(4) == 0 {
			size = uint64(1 + rng.Intn(3000))
		}
		ch := shuffle(randomChunks(size, rng.Intn(6), rng.Intn(2) == 0))
		if i%10 == 0 {
			ch = nil // 0x1212 before any chunk
		}
		over := false
		firstJudged := 0
		if i%40 == 14 || i == 4 {
			// MORE ranges than one 0x9212 body of <= 1023 bytes can hold (8 bytes per range): 127..255 single-byte
			// gaps - the property's "any count up to 255 gaps ... driven over a socket"
			overN++
			g := []int{127, 128, 200, 255}[overN%4]
			c.Count(fmt.Sprintf("socket:over:%d-gaps", g))
			size = uint64(2 * g)
			ch = nil
			for x := 0; x < g; x++ {
				ch = append(ch, seg{uint32(2*x + 1), 1})
			}
			ch = shuffle(ch)
			over = true
		} else if i%25 == 7 {
			// many single-byte gaps: every second byte of a file received as its own chunk (as many gaps as one
			// 0x9212 body of <= 1023 bytes can list: 8 bytes per range after the name and three fixed bytes)
			g := 20 + rng.Intn(100)
			size = uint64(2*g + rng.Intn(2))
			ch = nil
			for x := 0; x < g; x++ {
				ch = append(ch, seg{uint32(2*x + 1), 1})
			}
			ch = shuffle(ch)
		}
		name := []byte(fmt.Sprintf("f%d.bin", rng.Intn(100)))
		content := make([]byte, size)
		rng.Read(content)
		serial := uint16(rng.Intn(65536))
		segs := [][]byte{Frame808(0x1210, v2019, bcd, serial, Body1210(d, []byte("ID"), 0, -1, []AttItem{{name, uint32(size)}}))}
		if i%5 == 3 {
			// equal-sized cells, m of them lost and m received ones sent twice: the bytes counted twice
			// equal the bytes missing (a byte COUNT that reaches the size must not be taken for coverage)
			u := uint64(1 + rng.Intn(50))
			k := 3 + rng.Intn(6)
			size = u * uint64(k)
			content = make([]byte, size)
			rng.Read(content)
			m := 1 + rng.Intn(k/2)
			perm := rng.Perm(k)
			ch = nil
			for _, j := range perm[m:] {
				ch = append(ch, seg{uint32(uint64(j) * u), uint32(u)})
			}
			segs = [][]byte{Frame808(0x1210, v2019, bcd, serial, Body1210(d, []byte("ID"), 0, -1, []AttItem{{name, uint32(size)}}))}
		}
		// a second file announced in the SAME 0x1210 and received completely, chunk by chunk on the same offsets
		// (a shared packet grid): what one file has received must not count for the other
		var decoy []byte
		if i%7 == 5 && !over && size >= 2 {
			decoy = []byte(fmt.Sprintf("d%d.bin", rng.Intn(100)))
			if string(decoy) == string(name) {
				decoy = append(decoy, 'x')
			}
			dcontent := make([]byte, size)
			rng.Read(dcontent)
			segs = [][]byte{Frame808(0x1210, v2019, bcd, serial, Body1210(d, []byte("ID"), 0, -1, []AttItem{{decoy, uint32(size)}, {name, uint32(size)}}))}
			cut := []uint64{0, size / 2, size}
			if rng.Intn(2) == 0 && len(ch) > 0 { // or on exactly the grid of the chunks the other file is MISSING
				cut = []uint64{0}
				for _, g := range refGaps(size, ch) {
					if uint64(g.O) > cut[len(cut)-1] {
						cut = append(cut, uint64(g.O))
					}
					if e := uint64(g.O) + uint64(g.L); e > cut[len(cut)-1] {
						cut = append(cut, e)
					}
				}
				if cut[len(cut)-1] < size {
					cut = append(cut, size)
				}
			}
			for k := 0; k+1 < len(cut); k++ {
				if cut[k+1] > cut[k] {
					segs = append(segs, Chunk(d, decoy, uint32(cut[k]), dcontent[cut[k]:cut[k+1]]))
				}
			}
			c.Count("socket:two-files-one-1210")
		}
		for _, s := range ch {
			segs = append(segs, Chunk(d, name, s.O, content[s.O:s.O+s.L]))
		}
		if i%5 == 3 {
			for _, s := range ch[:min(len(ch), int(size/uint64(ch[0].L))-len(ch))] { // as many duplicates as cells are missing
				segs = append(segs, Chunk(d, name, s.O, content[s.O:s.O+s.L]))
			}
		} else if len(ch) > 0 && rng.Intn(3) == 0 { // an identical chunk sent again (retransmission), anywhere before the report
			s := ch[rng.Intn(len(ch))]
			dup := Chunk(d, name, s.O, content[s.O:s.O+s.L])
			at := 1 + rng.Intn(len(segs))
			segs = append(segs[:at:at], append([][]byte{dup}, segs[at:]...)...)
		}
		segs = append(segs, Frame808(0x1212, v2019, bcd, serial+1, Body1211(name, 2, uint32(size))))
		want := refGaps(size, ch)
		for _, s := range shuffle(want) {
			segs = append(segs, Chunk(d, name, s.O, content[s.O:s.O+s.L]))
		}
		segs = append(segs, Frame808(0x1212, v2019, bcd, serial+2, Body1211(name, 2, uint32(size))))
		if i%3 == 2 { // several units per read: merge runs of adjacent segments into single writes
			var merged [][]byte
			for x := 0; x < len(segs); {
				k := 1 + rng.Intn(3)
				var w []byte
				for y := 0; y < k && x < len(segs); y, x = y+1, x+1 {
					w = append(w, segs[x]...)
				}
				merged = append(merged, w)
			}
			segs = merged
		}
		req := AttRequest(d, segs)
		res := AttRun(d, segs, nil)
		if attModel {
			c.Case(req, AttCanon(res), len(ch) > 0 && len(want) > 0)
		} else {
			c.Eval(req, len(ch) > 0 && len(want) > 0)
		}
		c.Count("socket")
		frames, ok := SplitFrames(res.Wire)
		bad := func(what, obs, reqd string) {
			c.Violate(Violation{Signature: "C16/socket/" + what, What: "completion response over a real connection", Input: req, Observed: obs, Required: reqd})
		}
		undecodable := ""
		if ok {
			for _, fr := range frames { // every reply must be a frame the library's own decoder (a terminal) accepts
				if a := FrameDecode(fr); !strings.HasPrefix(a, "ok ") {
					undecodable = a
				}
			}
		}
		if undecodable != "" && !over {
			bad("reply-undecodable", undecodable, "every reply frame decodes (JTMessage.Decode)")
			continue
		}
		if over && (res.Panic != "" || !ok || len(frames) != 3 || undecodable != "") {
			// the completion response for more than 126 ranges does not fit a frame: Header.Encode writes the
			// unmasked body length into the property word (it spills into the flag bits) and the reply is undecodable
			c.Violate(Violation{Signature: "C16/socket/reply-over-1023", What: "completion response for more ranges than one frame can carry",
				Input: req, Observed: fmt.Sprintf("panic=%q frames=%d split-ok=%v decode of the reply: %s (wire bytes=%d)", res.Panic, len(frames), ok, undecodable, len(res.Wire)),
				Required: fmt.Sprintf("a decodable 0x9212 (or several) listing the %d missing ranges", len(want))})
			// the report after the resend (no ranges: it fits) and the file content are still judged
			firstJudged = 1
		}
		if res.Panic != "" || !ok || len(frames) != 3 {
			bad("replies", fmt.Sprintf("panic=%q frames=%d wire=%s", res.Panic, len(frames), Hx(res.Wire)), "three reply frames (0x8001, 0x9212, 0x9212)")
			continue
		}
		for k, wantList := range [][]seg{want, nil} {
			if k < firstJudged {
				continue
			}
			id, _, _, _, body, ok := Parse808(frames[1+k])
			rn, _, rres, cnt, list, ok2 := ref9212(body)
			wantRes := byte(0)
			if len(wantList) > 0 {
				wantRes = 1
			}
			if !ok || !ok2 || id != 0x9212 || string(rn) != string(name) || rres != wantRes || cnt != len(wantList) || !eqSegs(list, wantList) {
				bad([]string{"first-report", "after-resend"}[k], Hx(frames[1+k]), fmt.Sprintf("0x9212 name=%s result=%d ranges=%s", name, wantRes, segsStr(wantList)))
			}
		}
		// and the file content is the original
		last := res.Events[len(res.Events)-1]
		okContent := false
		for _, f := range last.Files {
			if string(f.Name) == string(name) && string(f.Body) == string(content) {
				okContent = true
			}
		}
		wantFiles := 1
		if decoy != nil {
			wantFiles = 2
		}
		if len(last.Files) != wantFiles || !okContent {
			bad("content", fmt.Sprintf("%d files", len(last.Files)), "the reassembled file equals the original after the resend")
		}
	}
}

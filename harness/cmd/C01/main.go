package main

import (
	"fmt"
	"math/rand"
	"strings"

	. "verifh/lib"
)

func main() { Main("C01", c01) }

// partner byte the escaped check code of the current checksum-special case must show (7d -> 7d 01, 7e -> 7d 02)
var specialPartner byte

var alphabet = []byte{0x7e, 0x7d, 0x01, 0x02, 0x00, 0x41}

func c01(c *Ctx) {
	defer DrainFrameProblems(c, "C01")
	c.Rule = "source headers {2013,2019 with version-number bytes 0,1,2,3,4,7d,7e,ff} x {fragmented,not} x {enc bit} x phones x serials (built by an independent frame builder and decoded by the real Decode), reply ids {0, fixed, random}, platform serials {0,1,0x7d,0x7e,0x7d7e,65535,random}; bodies: every length 0..40 and 990..1023, all strings over {7e,7d,01,02,00,41} up to length 4 (5 thorough) at the start / end / middle of a filler, bodies solved for checksum 0x7d / 0x7e, all-7e and all-7d bodies of 1023 bytes, random; non-trivial = body contains a byte that needs escaping or length >= 990 or checksum is special; distinct = distinct request"
	rng := c.Rng
	srcs := sources(rng)
	pss := []uint16{0, 1, 0x7d, 0x7e, 0x7d7e, 0x7e7d, 65535}
	one := func(src []byte, rid, ps uint16, body []byte, what string) {
		req := fmt.Sprintf("encode %s %d %d %s", Hx(src), rid, ps, Hx(body))
		special := len(body) >= 990 || strings.ContainsAny(string(body), "\x7e\x7d")
		out := c.Do(req, special)
		c.Count(what)
		// direct oracle: the literal property on the implementation
		sm, ok := RefDecode(src)
		if !ok {
			panic("bad source frame")
		}
		wantID := rid
		if rid == 0 {
			wantID = sm.ID
		}
		want := RefMsg{ID: wantID, Enc: sm.Enc, Frag: 0, Ver: sm.Ver, Bcd: sm.Bcd, Serial: ps, Body: body}
		if strings.HasPrefix(out, "panic") || strings.HasPrefix(out, "src") {
			c.Violate(Violation{Signature: "C01/encode-" + firstTok(out), What: "Header.Encode failed", Input: req, Observed: out, Required: "a frame"})
			return
		}
		frame := Unhx(out)
		if len(frame) < 2 || frame[0] != 0x7e || frame[len(frame)-1] != 0x7e || HasInteriorDelim(frame) {
			c.Violate(Violation{Signature: "C01/delimiter", What: "0x7e occurs inside the framed bytes", Input: req, Observed: out, Required: "0x7e only first and last"})
		}
		got := FrameDecode(frame)
		// the checksum is not part of the property's statement: compare without it
		if stripCheck(got) != stripCheck(want.Canon()) {
			c.Violate(Violation{Signature: "C01/roundtrip/" + what, What: "Decode(Encode(h,id,serial,body)) differs", Input: req,
				Observed: got, Required: stripCheck(want.Canon())})
		}
		if what == "checksum-special" {
			// the generator solved the body for a check code of 0x7d / 0x7e: make sure it really is one (the
			// escaped code is the last thing before the closing delimiter)
			n := len(frame)
			if n >= 4 && frame[n-3] == 0x7d && frame[n-2] == specialPartner {
				c.Count("checksum-special:hit")
			} else {
				c.Count("checksum-special:MISS")
			}
		}
		if rng.Intn(8) == 0 || special { // also tie decode of the produced frame to the model
			c.Do("decode "+out, special)
		}
	}
	// (1) every length 0..40, 990..1023 x every source x a few serials
	for _, src := range srcs {
		for l := 0; l <= 1023; l++ {
			if l > 40 && l < 990 && (c.Quick() || l%37 != 0) {
				continue
			}
			body := make([]byte, l)
			rng.Read(body)
			if rng.Intn(3) == 0 {
				for i := range body {
					body[i] = alphabet[rng.Intn(len(alphabet))]
				}
			}
			one(src, []uint16{0, 0x8001, uint16(rng.Intn(65536))}[rng.Intn(3)], pss[rng.Intn(len(pss))], body, "len")
		}
	}
	// (2) exhaustive small strings over the special alphabet at start / end / middle of a filler
	maxk := 4
	if !c.Quick() {
		maxk = 5
	}
	src0, src1 := srcs[0], srcs[len(srcs)-1]
	var rec func(cur []byte, k int)
	cnt := 0
	rec = func(cur []byte, k int) {
		for pos := 0; pos < 3; pos++ {
			filler := []byte{0x11, 0x22, 0x33}
			var body []byte
			switch pos {
			case 0:
				body = append(append([]byte{}, cur...), filler...)
			case 1:
				body = append(append([]byte{}, filler...), cur...)
			default:
				body = append(append(append([]byte{}, filler[:1]...), cur...), filler[1:]...)
			}
			src := src0
			if cnt%2 == 1 {
				src = src1
			}
			cnt++
			one(src, 0x8001, pss[cnt%len(pss)], body, "alphabet")
		}
		if k == maxk {
			return
		}
		for _, a := range alphabet {
			rec(append(cur, a), k+1)
		}
	}
	rec(nil, 0)
	// (3) bodies solved for a special checksum: flip the last filler byte so that the XOR is 0x7d / 0x7e
	for _, src := range srcs {
		for _, target := range []byte{0x7d, 0x7e} {
			for _, l := range []int{1, 2, 17, 999, 1000, 1023} {
				body := make([]byte, l)
				rng.Read(body)
				ps := pss[rng.Intn(len(pss))]
				// compute the checksum of the frame with this body via the reference, then adjust body[l-1]
				sm, _ := RefDecode(src)
				m := RefMsg{ID: 0x8001, Enc: sm.Enc, Ver: sm.Ver, Bcd: sm.Bcd, Serial: ps, Body: body}
				x := RefXor(RefPayload(m, 0, 1))
				body[l-1] ^= x ^ target
				specialPartner = map[byte]byte{0x7d: 0x01, 0x7e: 0x02}[target]
				one(src, 0x8001, ps, body, "checksum-special")
			}
		}
	}
	// (4) all-7e / all-7d bodies of 1023 bytes, and random bodies
	for _, src := range srcs[:4] {
		for _, f := range []byte{0x7e, 0x7d} {
			body := make([]byte, 1023)
			for i := range body {
				body[i] = f
			}
			one(src, 0x8001, 0x7e7d, body, "dense")
		}
	}
	n := 2000
	if !c.Quick() {
		n = 200000
	}
	for i := 0; i < n; i++ {
		body := make([]byte, rng.Intn(1024))
		rng.Read(body)
		one(srcs[rng.Intn(len(srcs))], uint16(rng.Intn(65536)), uint16(rng.Intn(65536)), body, "random")
	}
}

func sources(rng *rand.Rand) [][]byte {
	var out [][]byte
	phones := [][]byte{{0, 0, 0, 0, 0, 0, 0, 0, 0, 0}, {0x99, 0x99, 0x99, 0x99, 0x99, 0x99, 0x99, 0x99, 0x99, 0x99},
		{0x01, 0x23, 0x45, 0x67, 0x89, 0x01, 0x7e, 0x7d, 0xab, 0xff}, nil}
	for ver := uint8(0); ver < 2; ver++ {
		for frag := uint8(0); frag < 2; frag++ {
			for enc := uint8(0); enc < 2; enc++ {
				for _, ph := range phones {
					n := 6
					if ver == 1 {
						n = 10
					}
					bcd := make([]byte, n)
					if ph == nil {
						rng.Read(bcd)
					} else {
						copy(bcd, ph[10-n:])
					}
					body := make([]byte, rng.Intn(20))
					rng.Read(body)
					m := RefMsg{ID: uint16(rng.Intn(65536)), Enc: enc, Frag: frag, Ver: ver, Bcd: bcd,
						Serial: []uint16{0, 0x7d7e, 65535, uint16(rng.Intn(65536))}[rng.Intn(4)], Sum: 3, No: 2, Body: body}
					// the 2019 header's protocol-version-NUMBER byte (1 today, incremented by later revisions): the decoder
					// skips it and the reply always carries 1, so the source may carry any value
					vb := byte(1)
					if ver == 1 {
						vb = []byte{1, 2, 0, 0x7e, 4, 0xff, 0x7d, 3}[len(out)%8]
					}
					out = append(out, RefFrameX(m, 0, vb))
				}
			}
		}
	}
	return out
}

func firstTok(s string) string {
	if i := strings.IndexByte(s, ' '); i >= 0 {
		return s[:i]
	}
	return s
}

func stripCheck(s string) string {
	if i := strings.LastIndex(s, " check="); i >= 0 {
		return s[:i]
	}
	return s
}

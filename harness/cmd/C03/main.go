package main

// C03 — decoders are total functions of their input.
//
// Direct oracle (implementation alone): EVERY type of protocol/model with a Parse(*jt808.JTMessage) method
// (lib.C03Types, checked against the source of the tree the harness is built from), jt808 Decode, jt1078 Decode
// and — through lib.C03Location — the location family and the five vendor extension handlers are run under
// recover() on exact-capacity copies; the same bytes inside larger buffers behind two different poisoned tails;
// on receivers that already parsed 1-3 other bodies; String() under recover().  A panic, a tail-dependent
// answer, a reused != fresh answer or a slow call is a violation with a replayable request.
// Correspondence: the same requests answered by the extracted Coq models (Model/Total_*.v, Location*.v, Frame.v,
// Jt1078.v) for every type inside the model.

import (
	"bytes"
	"fmt"
	"hash/fnv"
	"os"
	"os/exec"
	"runtime"
	"runtime/pprof"
	"strconv"
	"strings"
	"time"

	. "verifh/lib"
)

func main() {
	if pf := os.Getenv("C03_PROF"); pf != "" {
		if fh, err := os.Create(pf); err == nil {
			pprof.StartCPUProfile(fh)
			defer pprof.StopCPUProfile()
		}
	}
	// one P: the hand-over to the watchdog's worker goroutine is then a goroutine switch, not a futex wake-up of
	// another thread (10 s less per run); a call that hangs is preempted every 10 ms, and every abandoned call adds a P
	runtime.GOMAXPROCS(1)
	C03GuardOps() // every op under the watchdog: a replayed request that hangs answers "hang"
	Main("C03", c03)
}

type runner struct {
	c       *Ctx
	g       *C03Gen
	seen    map[uint64]struct{}
	slowest time.Duration
	slowReq string
	// sampling of correspondence cases: every case up to corrAll per bucket, then 1 in corrEvery
	bucket    map[string]int
	corrAll   int
	corrEvery int
	tails     [][]byte
	hung      map[string]int // type -> calls that did not return
}

func (r *runner) dup(key string) bool {
	h := fnv.New64a()
	h.Write([]byte(key))
	k := h.Sum64()
	if _, ok := r.seen[k]; ok {
		return true
	}
	r.seen[k] = struct{}{}
	return false
}

func (r *runner) sample(bucket string) bool {
	r.bucket[bucket]++
	n := r.bucket[bucket]
	if strings.HasSuffix(bucket, "param-id") {
		return true
	}
	if strings.HasPrefix(bucket, "seq/") { // the direct reused-vs-fresh comparison runs on every body; fewer lines for the oracle
		return n <= r.corrAll || n%(r.corrEvery*3) == 0
	}
	if strings.HasSuffix(bucket, "fill-long") { // long constant bodies: the guard answers; few are enough
		return n <= 12 || n%(r.corrEvery*8) == 0
	}
	return n <= r.corrAll || n%r.corrEvery == 0
}

// check runs every C03 oracle on one body of one type.
func (r *runner) check(t *C03Type, ver, dial int, body []byte, pool []C03VerBody, kind string) {
	c := r.c
	hk := fnv.New64a()
	hk.Write([]byte(t.Name))
	hk.Write([]byte{byte(ver), byte(dial)})
	hk.Write(body)
	hkey := hk.Sum64()
	if c.Quick() { // the thorough tier runs tens of millions of bodies: no table of what was seen
		if _, ok := r.seen[hkey]; ok {
			return
		}
		r.seen[hkey] = struct{}{}
	}
	if r.hung[t.Name] >= 2 { // two calls of this type never returned: each left a spinning goroutine behind; enough
		return
	}
	mkkey := func() string { return fmt.Sprintf("%s %d %d %s", t.Name, ver, dial, Hx(body)) }
	// the earlier bodies of the receiver-reuse run (chosen here: the PRNG belongs to this goroutine)
	var seq []C03VerBody
	if len(pool) > 0 {
		n := 1 + c.Rng.Intn(3)
		seq = make([]C03VerBody, 0, n+1)
		for i := 0; i < n; i++ {
			p := pool[c.Rng.Intn(len(pool))] // a well-formed body of some header version, parsed with that version
			if c.Rng.Intn(6) == 0 && len(p.Body) > 0 { // a prefix: a parse that fails half way
				p.Body = p.Body[:c.Rng.Intn(len(p.Body))]
			}
			if c.Rng.Intn(8) == 0 { // or with another header version
				vers := t.Versions()
				p.Ver = vers[c.Rng.Intn(len(vers))]
			}
			seq = append(seq, p)
		}
		seq = append(seq, C03VerBody{Ver: ver, Body: body})
	}
	mkreq := func() string {
		var sb strings.Builder
		fmt.Fprintf(&sb, "c03s %s %d", t.Name, dial)
		for _, s := range seq {
			sb.WriteByte(' ')
			sb.WriteString(s.String())
		}
		return sb.String()
	}
	// the real code, under the watchdog (one hand-over per body): (a) exact capacity with String(), (b) behind two
	// poisoned tails, (c) on a receiver that parsed 1..3 other bodies first
	var ans, a3 string
	a2 := make([]string, len(r.tails))
	stage := -1
	var el time.Duration
	_, outcome := C03Call(func() string {
		stage = -1
		t0 := time.Now()
		if len(body) > 600 && hkey%8 != 0 {
			ans = C03ParseNoString(t, ver, dial, body)
		} else {
			ans = C03Parse(t, ver, dial, body, nil)
		}
		el = time.Since(t0)
		for i, tail := range r.tails {
			stage = i
			a2[i] = C03Parse(t, ver, dial, body, tail)
		}
		if seq != nil {
			stage = len(r.tails)
			a3 = C03ParseSeq(t, dial, seq)
		}
		return ""
	})
	replay := func() string {
		switch {
		case stage < 0:
			return "c03p " + mkkey()
		case stage < len(r.tails):
			return "c03t " + mkkey() + " " + Hx(r.tails[stage])
		}
		return mkreq()
	}
	switch outcome {
	case "hang":
		r.hung[t.Name]++
		runtime.GOMAXPROCS(runtime.GOMAXPROCS(0) + 1)
		viol(c, Violation{Signature: "C03/hang/" + t.Name, What: "Parse did not return within " + (C03Deadline + C03LongDeadline).String() + " (call abandoned)",
			Input: replay(), Observed: "no answer", Required: "returns promptly: an error or a value"})
		c.Case(replay(), "hang", true)
		return
	case "slow":
		viol(c, Violation{Signature: "C03/slow/" + t.Name, What: "Parse needed more than " + C03Deadline.String() + " twice", Input: replay(),
			Observed: "slow", Required: "returns promptly"})
	}
	if el > r.slowest {
		r.slowest, r.slowReq = el, Trunc("c03p "+mkkey(), 200)
	}
	out := firstWord(ans)
	c.Count(kind + ":" + out)
	c.Count("type:" + t.Name + ":" + out)
	nontrivial := out != "err" || len(body) > 0
	switch out {
	case "panic":
		viol(c, Violation{Signature: "C03/panic/" + t.Name, What: "Parse panicked on an exact-capacity body (index or slice beyond len)", Input: "c03p " + mkkey(),
			Observed: "panic", Required: "an error or a value"})
	case "strpanic":
		viol(c, Violation{Signature: "C03/string/" + t.Name, What: "String() panicked on a successfully parsed value", Input: "c03p " + mkkey(),
			Observed: Trunc(ans, 400), Required: "text"})
	}
	// String() is run on the exact-capacity call only: the comparisons below are on the parse outcome
	cmp := ans
	if out == "strpanic" {
		cmp = "ok" + ans[len("strpanic"):]
	}
	for i, tail := range r.tails {
		if a2[i] != cmp {
			viol(c, Violation{Signature: "C03/tail/" + t.Name, What: "the result depends on memory beyond the slice",
				Input: "c03t " + mkkey() + " " + Hx(tail), Observed: Trunc(a2[i], 400), Required: "same as with exact capacity: " + Trunc(ans, 400)})
		}
	}
	// the extracted model reads a list: bodies of several kilobytes (count sweeps with 255 records) cost it
	// milliseconds each, so only one in sixteen of those becomes a correspondence line (all run on the implementation)
	big := len(body) > 400 && hkey%16 != 0
	if seq != nil {
		if a3 != cmp {
			viol(c, Violation{Signature: "C03/history/" + t.Name, What: "the outcome depends on what the receiver parsed before",
				Input: mkreq(), Observed: Trunc(a3, 600), Required: "same as a fresh receiver: " + Trunc(ans, 600)})
		}
		if t.Model && !big && r.sample("seq/"+t.Name+"/"+kind) {
			c.Case(mkreq(), a3, true)
		} else {
			c.Evaluations++
		}
	}
	if t.Model && !big && r.sample(fmt.Sprintf("%s/%d/%d/%s", t.Name, ver, dial, kind)) {
		if hkey%6 == 1 { // the spare-capacity run as a correspondence line too (Model/Total_cap.v gets the same tail)
			i := int(hkey>>8) % len(r.tails)
			c.Case("c03t "+mkkey()+" "+Hx(r.tails[i]), a2[i], nontrivial)
		}
		c.Case("c03p "+mkkey(), ans, nontrivial)
	} else if c.Quick() {
		c.Eval(strconv.FormatUint(hkey, 36), nontrivial)
	} else {
		c.Evaluations++
	}
}

func fill(n int, b byte) []byte { return bytes.Repeat([]byte{b}, n) }

func c03(c *Ctx) {
	c.Rule = "per exported message type x header version x dialect: every body length 0..guard+3 (0..1100 for the first version/dialect, 0..300 otherwise) with 0x00 / 0xFF / 0x01 fill; well-formed wire bodies built by hand, every truncation of them, extensions, every value 0..255 in every byte of their count/length/id fields (+ all-ones), boundary values at the other positions, random mutations; each on an exact-capacity copy, behind two poisoned tails and on a receiver that parsed 1-3 other bodies; jt808 frames and jt1078 packets likewise; location family: see lib.C03Location. A case is non-trivial when the body is non-empty or parses; distinct = distinct (type,version,dialect,bytes)"
	r := &runner{c: c, g: &C03Gen{R: c.Rng, Big: !c.Quick()}, seen: map[uint64]struct{}{}, bucket: map[string]int{},
		hung: map[string]int{}, corrAll: 150, corrEvery: 9, tails: [][]byte{fill(64, 0xA5), fill(64, 0x01)}}
	if !c.Quick() {
		r.corrAll, r.corrEvery = 300, 40
	}
	tStart := time.Now()
	// the registry against the source
	missing, stale, dir, err := C03RegistryCheck()
	c.Extra["model_source_dir"] = dir
	if err != nil || len(missing) > 0 || len(stale) > 0 {
		viol(c, Violation{Signature: "C03/registry", What: "the registry of decoders (lib.C03Types) does not match protocol/model: every type with a Parse method must be listed",
			Input: "c03p ? 2 0 -", Observed: fmt.Sprintf("missing=%v stale=%v err=%v", missing, stale, err), Required: "registry = source"})
	}
	// the spare-capacity models of the locality theorems must be what bin/gen_total_cap produces from the current
	// cap = len models (Model/Total_cap.v, Total_cap2.v are generated text)
	if out, err := exec.Command("/verif/bin/gen_total_cap", "--check").CombinedOutput(); err != nil {
		viol(c, Violation{Signature: "C03/cap-models", What: "coq/Model/Total_cap*.v are not what bin/gen_total_cap generates from the current models",
			Input: "c03p ? 2 0 -", Observed: Trunc(string(out)+" "+err.Error(), 400), Required: "bin/gen_total_cap --check exits 0"})
	}
	nvalid, nmut, nfree := 4, 40, 24
	bvals := []int{0, 1, 2, 3, 4, 5, 7, 8, 9, 15, 16, 31, 32, 36, 127, 128, 220, 240, 254, 255}
	all := make([]int, 256)
	for i := range all {
		all[i] = i
	}
	if !c.Quick() {
		nvalid, nmut, nfree = 10, 400, 48
		bvals = all
	}
	for _, t := range C03Types {
		for di, dial := range t.Dialects() {
			// well-formed bodies of every header version first: the receiver-reuse runs draw their earlier
			// bodies from all of them (a 2019 body before a 2013 one and the other way round)
			type vb struct {
				bodies [][]byte
				groups [][][]int
			}
			valid := map[int]*vb{}
			var pool []C03VerBody
			for vi, ver := range t.Versions() {
				nv := nvalid
				if (vi > 0 || di > 0) && c.Quick() {
					nv = 2
				}
				v := &vb{}
				for i := 0; i < nv; i++ {
					b, pos := t.Valid(r.g, ver, dial)
					v.bodies = append(v.bodies, b)
					v.groups = append(v.groups, pos)
					pool = append(pool, C03VerBody{Ver: ver, Body: b})
				}
				valid[ver] = v
			}
			pool = append(pool, C03VerBody{Ver: 2}, C03VerBody{Ver: 2, Body: []byte{0}}, C03VerBody{Ver: 3, Body: []byte{0xFF}})
			for vi, ver := range t.Versions() {
				first := vi == 0 && di == 0
				// (a)(b) every length with 0x00 / 0xFF / 0x01 fill
				maxl := 300
				if first {
					maxl = 1100
				}
				if !t.Fixed && c.Quick() && !first {
					maxl = t.MaxLen + 40
				}
				for n := 0; n <= maxl; n++ {
					kind := "fill"
					if n > t.MaxLen+3 {
						kind = "fill-long"
					}
					r.check(t, ver, dial, make([]byte, n), pool, kind)
					r.check(t, ver, dial, fill(n, 0xFF), pool, kind)
					if n <= t.MaxLen+3 || !t.Fixed {
						r.check(t, ver, dial, fill(n, 0x01), pool, kind)
					}
				}
				// (c)(d)(f) valid bodies, truncations, extensions, count sweeps, mutations
				v := valid[ver]
				for bi, b := range v.bodies {
					r.check(t, ver, dial, b, pool, "valid")
					for n := 0; n < len(b); n++ {
						if n > 160 && n%5 != 0 && c.Quick() {
							continue
						}
						r.check(t, ver, dial, b[:n], pool, "trunc")
					}
					r.check(t, ver, dial, append(append([]byte{}, b...), 0), pool, "extend")
					r.check(t, ver, dial, append(append([]byte{}, b...), 0xFF, 0xFF, 0xFF, 0xFF, 0xFF, 0xFF), pool, "extend")
					// every value in every byte of the count / length / id fields
					gs := v.groups[bi]
					if c.Quick() && len(gs) > 7 {
						gs = append(append([][]int{}, gs[:3]...), gs[len(gs)-4:]...)
					}
					isCnt := map[int]bool{}
					for _, grp := range gs {
						for _, pos := range grp {
							isCnt[pos] = true
							for _, x := range all {
								m := append([]byte{}, b...)
								m[pos] = byte(x)
								r.check(t, ver, dial, m, pool, "count")
							}
						}
						for _, x := range []byte{0xFF, 0xFE, 0x00} {
							m := append([]byte{}, b...)
							for _, pos := range grp {
								m[pos] = x
							}
							if x == 0xFE {
								m[grp[len(grp)-1]] = 0xFF
								m[grp[0]] = 0x7F
							}
							r.check(t, ver, dial, m, pool, "count")
						}
					}
					// boundary values at other positions
					if bi < 2 || !c.Quick() {
						done := 0
						for pos := 0; pos < len(b) && done < nfree; pos++ {
							if isCnt[pos] {
								continue
							}
							done++
							for _, x := range bvals {
								m := append([]byte{}, b...)
								m[pos] = byte(x)
								r.check(t, ver, dial, m, pool, "sweep")
							}
						}
					}
					for i := 0; i < nmut && len(b) > 0; i++ {
						m := append([]byte{}, b...)
						for k := 0; k <= c.Rng.Intn(3) && len(m) > 0; k++ {
							switch c.Rng.Intn(5) {
							case 0:
								m[c.Rng.Intn(len(m))] = byte(c.Rng.Intn(256))
							case 1:
								m[c.Rng.Intn(len(m))] ^= 1 << uint(c.Rng.Intn(8))
							case 2:
								p := c.Rng.Intn(len(m))
								m = append(m[:p], m[p+1:]...)
							case 3:
								p := c.Rng.Intn(len(m) + 1)
								m = append(m[:p], append([]byte{byte(c.Rng.Intn(256))}, m[p:]...)...)
							case 4: // splice the tail of another valid body
								o := v.bodies[c.Rng.Intn(len(v.bodies))]
								if len(o) > 0 {
									m = append(m[:c.Rng.Intn(len(m)+1)], o[c.Rng.Intn(len(o)):]...)
								}
							}
						}
						r.check(t, ver, dial, m, pool, "mutate")
					}
				}
				// (c') every value of every length / count field with exactly that many units present, and +-1 byte
				if lens := C03Lens[t.Name]; lens != nil {
					lens(r.g, ver, dial, func(b []byte) { r.check(t, ver, dial, b, pool, "len") })
				}
			}
		}
	}
	// terminal parameters: EVERY id 0x000..0x120 (plus a few far ones) x the lengths a typed member may demand,
	// alone and after a parameter that was stored before (ties the id tables of the model to the switch in parseParam)
	if t := C03TypeByName("P0x8103"); t != nil {
		pool := []C03VerBody{{Ver: 2, Body: []byte{1, 0, 0, 0, 1, 4, 0, 0, 0, 9}}, {Ver: 2, Body: []byte{1, 0, 0, 0, 0x83, 2, 0x41, 0x42}}}
		ids := []uint32{0xf364, 0x10001, 0x1000001, 0xffffffff}
		for id := uint32(0); id <= 0x120; id++ {
			ids = append(ids, id)
		}
		for _, id := range ids {
			for _, n := range []int{0, 1, 2, 3, 4, 5, 8, 9} {
				item := append([]byte{byte(id >> 24), byte(id >> 16), byte(id >> 8), byte(id), byte(n)}, r.g.Bytes(n)...)
				r.check(t, 2, 0, append([]byte{1}, item...), pool, "param-id")
				two := append([]byte{2, 0, 0, 0, 1, 4, 0, 0, 0, 7}, item...)
				r.check(t, 2, 0, append(append([]byte{}, two...), item...), pool, "param-id")
				r.check(t, 2, 0, append([]byte{3}, append(append([]byte{}, two[1:]...), item...)...), pool, "param-id")
			}
		}
	}
	t1 := time.Now()
	c03Frames(c, r)
	c03Rtp(c, r)
	t2 := time.Now()
	C03Location(c)
	c.Extra["seconds_types_codec_location"] = fmt.Sprintf("%.1f %.1f %.1f", t1.Sub(tStart).Seconds(), t2.Sub(t1).Seconds(), time.Since(t2).Seconds())
	// requests that went through a guarded op (frames, RTP, location, extensions) and were late twice
	for _, req := range C03SlowOps {
		dec := firstWord(req)
		switch dec {
		case "decode", "c03fseq", "c03ft":
			dec = "jt808.Decode"
		case "c03rtp", "c03rseq", "c03rt":
			dec = "jt1078.Decode"
		case "ext", "seqext", "extemb", "c03et":
			dec = "ext"
		default:
			dec = "location"
		}
		viol(c, Violation{Signature: "C03/slow/" + dec, What: "the call needed more than " + C03Deadline.String() + " twice", Input: req,
			Observed: "slow", Required: "returns promptly"})
	}
	c.Extra["slowest_parse"] = r.slowest.String() + " " + r.slowReq
	c.Extra["types"] = len(C03Types)
	nm := 0
	for _, t := range C03Types {
		if t.Model {
			nm++
		}
	}
	c.Extra["types_in_coq_model"] = nm + 3 // + T0x0200 T0x0704 T0x0801 (Model/Location.v, ops p0200 p0704 p0801)
	c.Exhaustive = false
}

// ---------------------------------------------------------------- jt808 frames

func mkFrame(rng interface{ Intn(int) int }, ver2019, frag bool, bodyLen int, g *C03Gen) []byte {
	return mkFrame2(rng, ver2019, frag, bodyLen, bodyLen, g)
}

// mkFrame2: the attribute word announces `declared` body bytes, `bodyLen` are present
func mkFrame2(rng interface{ Intn(int) int }, ver2019, frag bool, declared, bodyLen int, g *C03Gen) []byte {
	attr := uint16(declared & 0x3FF)
	if ver2019 {
		attr |= 1 << 14
	}
	if frag {
		attr |= 1 << 13
	}
	p := []byte{byte(rng.Intn(256)), byte(rng.Intn(256)), byte(attr >> 8), byte(attr)}
	if ver2019 {
		p = append(p, 1)
		p = append(p, g.Bytes(10)...)
	} else {
		p = append(p, g.Bytes(6)...)
	}
	p = append(p, byte(rng.Intn(256)), byte(rng.Intn(256)))
	if frag {
		p = append(p, byte(rng.Intn(2)), byte(rng.Intn(256)), byte(rng.Intn(2)), byte(rng.Intn(256)))
	}
	p = append(p, g.Bytes(bodyLen)...)
	var x byte
	for _, b := range p {
		x ^= b
	}
	p = append(p, x)
	out := []byte{0x7e}
	for _, b := range p {
		switch b {
		case 0x7e:
			out = append(out, 0x7d, 0x02)
		case 0x7d:
			out = append(out, 0x7d, 0x01)
		default:
			out = append(out, b)
		}
	}
	return append(out, 0x7e)
}

func c03Frames(c *Ctx, r *runner) {
	one := func(f []byte, pool [][]byte, kind string) {
		req := "decode " + Hx(f)
		if r.dup(req) {
			return
		}
		ans := c.Do(req, len(f) > 2)
		c.Count("frame:" + kind + ":" + firstWord(ans))
		if ans == "panic" {
			viol(c, Violation{Signature: "C03/panic/jt808.Decode", What: "frame Decode panicked", Input: req, Observed: ans, Required: "an error or a message"})
		}
		if ans == "hang" {
			viol(c, Violation{Signature: "C03/hang/jt808.Decode", What: "frame Decode did not return", Input: req, Observed: ans, Required: "returns promptly"})
			return
		}
		for ti, tail := range [][]byte{fill(32, 0xAA), fill(32, 0x7e), {0x7d, 0x02, 0x7e}} {
			var a2 string
			if treq := "c03ft " + Hx(f) + " " + Hx(tail); (len(f)+ti)%4 == 0 {
				a2 = c.Do(treq, len(f) > 2) // also a correspondence line for decode_chk_cap
			} else {
				a2 = RunOp(treq)
			}
			if a2 != ans {
				viol(c, Violation{Signature: "C03/tail/jt808.Decode", What: "frame Decode depends on memory beyond the slice",
					Input: "c03ft " + Hx(f) + " " + Hx(tail), Observed: Trunc(a2, 500), Required: Trunc(ans, 500)})
			}
		}
		// reused JTMessage
		if len(pool) > 0 {
			n := 1 + c.Rng.Intn(3)
			reqs := "c03fseq"
			for i := 0; i < n; i++ {
				p := pool[c.Rng.Intn(len(pool))]
				if c.Rng.Intn(5) == 0 {
					p = p[:c.Rng.Intn(len(p))]
				}
				reqs += " " + Hx(p)
			}
			reqs += " " + Hx(f)
			a3 := c.Do(reqs, true)
			if a3 != ans {
				viol(c, Violation{Signature: "C03/history/jt808.Decode", What: "frame Decode on a reused JTMessage differs from a fresh one",
					Input: reqs, Observed: Trunc(a3, 500), Required: Trunc(ans, 500)})
			}
		}
	}
	var pool [][]byte
	reps := 4
	if !c.Quick() {
		reps = 60
	}
	for _, v19 := range []bool{false, true} {
		for _, frag := range []bool{false, true} {
			for _, bl := range []int{0, 1, 5, 28, 100} {
				for i := 0; i < reps; i++ {
					pool = append(pool, mkFrame(c.Rng, v19, frag, bl, r.g))
				}
			}
		}
	}
	for n := 0; n <= 40; n++ {
		one(fill(n, 0x7e), pool, "fill7e")
		one(fill(n, 0x7d), pool, "fill7d")
		one(make([]byte, n), pool, "zero")
		if n >= 2 {
			for _, fb := range []byte{0x00, 0xFF, 0x7d, 0x20, 0x40, 0x60} { // 0x20/0x40/0x60: fragment / 2019 / both bits
				z := fill(n, fb)
				z[0], z[n-1] = 0x7e, 0x7e
				one(z, pool, fmt.Sprintf("%02x-delimited", fb))
			}
		}
	}
	// every announced body length 0..1023 with exactly that many bytes present, one fewer, one more
	for bl := 0; bl < 1024; bl++ {
		if c.Quick() && bl > 260 && bl < 1000 && bl%16 != 0 {
			continue
		}
		for _, e := range []int{0, -1, 1} {
			if bl+e < 0 {
				continue
			}
			one(mkFrame2(c.Rng, bl%2 == 0, bl%3 == 0, bl, bl+e, r.g), pool, "len")
		}
	}
	for _, f := range pool {
		one(f, pool, "valid")
		for n := 0; n < len(f); n++ {
			if c.Quick() && len(f) > 40 && n%5 != 0 {
				continue
			}
			t := append(append([]byte{}, f[:n]...), 0x7e)
			one(t, pool, "trunc")
		}
		nm := 10
		if !c.Quick() {
			nm = 100
		}
		for i := 0; i < nm; i++ {
			m := append([]byte{}, f...)
			p := c.Rng.Intn(len(m))
			switch c.Rng.Intn(3) {
			case 0:
				m[p] = byte(c.Rng.Intn(256))
			case 1:
				m[p] = []byte{0x7d, 0x7e, 0x01, 0x02}[c.Rng.Intn(4)]
			case 2:
				m[p] ^= 1 << uint(c.Rng.Intn(8))
			}
			one(m, pool, "mutate")
		}
	}
}

// ---------------------------------------------------------------- jt1078 packets, fresh and reused receivers

func rtp(dt, sub uint8, bl int, g *C03Gen) []byte {
	b := []byte{0x30, 0x31, 0x63, 0x64, 0x81, 0x62, 0, 1}
	b = append(b, g.Bytes(6)...)
	b = append(b, 1, dt<<4|sub)
	if dt != 4 {
		b = append(b, g.Bytes(8)...)
	}
	if dt <= 2 {
		b = append(b, g.Bytes(4)...)
	}
	b = append(b, byte(bl>>8), byte(bl))
	return append(b, g.Bytes(bl)...)
}

func c03Rtp(c *Ctx, r *runner) {
	var pool [][]byte
	for dt := 0; dt < 16; dt++ {
		for _, bl := range []int{0, 1, 2, 30} {
			pool = append(pool, rtp(uint8(dt), uint8(c.Rng.Intn(16)), bl, r.g))
		}
	}
	var inputs [][]byte
	for _, p := range pool {
		inputs = append(inputs, p)
		for n := 0; n < len(p); n++ {
			inputs = append(inputs, p[:n])
		}
		inputs = append(inputs, append(append([]byte{}, p...), 0x30, 0x31))
	}
	for n := 0; n < 40; n++ {
		inputs = append(inputs, make([]byte, n), fill(n, 0xFF))
		m := append([]byte{0x30, 0x31, 0x63, 0x64}, fill(n, 0xFF)...) // marker + all-ones: largest body length
		inputs = append(inputs, m, append([]byte{0x30, 0x31, 0x63, 0x64}, make([]byte, n)...))
	}
	// every announced body length 0..255 (and 256, 950, 65535) with exactly that many bytes, one fewer, one more
	for _, bl := range append(append([]int{}, 256, 257, 950, 951, 65535), seqInts(256)...) {
		for _, e := range []int{0, -1, 1} {
			n := bl + e
			if n < 0 {
				continue
			}
			if n > 2000 {
				n = 10 + e
			}
			p := rtp(uint8(bl%5), uint8(bl%16), bl, r.g)
			hd := len(p) - bl
			p = append(p[:hd:hd], r.g.Bytes(n)...)
			inputs = append(inputs, p)
		}
	}
	reps := 1
	if !c.Quick() {
		reps = 8
	}
	for rep := 0; rep < reps; rep++ {
		for _, in := range inputs {
			req := "c03rtp " + Hx(in)
			fresh := RunOp(req)
			if rep == 0 {
				c.Case(req, fresh, len(in) >= 16)
				c.Count("rtp:" + firstWord(fresh))
				if fresh == "hang" {
					viol(c, Violation{Signature: "C03/hang/jt1078.Decode", What: "jt1078 Decode did not return", Input: req, Observed: "hang", Required: "returns promptly"})
					continue
				}
				if fresh == "panic" {
					viol(c, Violation{Signature: "C03/panic/jt1078.Decode", What: "jt1078 Decode or String panicked (fresh Packet)", Input: req, Observed: "panic", Required: "an error or a packet"})
				}
				for ti, tail := range [][]byte{fill(40, 0xAA), fill(40, 0x00)} {
					var a2 string
					if treq := "c03rt " + Hx(in) + " " + Hx(tail); (len(in)+ti)%3 == 0 {
						a2 = c.Do(treq, len(in) >= 16) // also a correspondence line for rtp_decode_cap
					} else {
						a2 = RunOp(treq)
					}
					if a2 != fresh {
						viol(c, Violation{Signature: "C03/tail/jt1078.Decode", What: "jt1078 Decode depends on memory beyond the slice",
							Input: "c03rt " + Hx(in) + " " + Hx(tail), Observed: Trunc(a2, 500), Required: Trunc(fresh, 500)})
					}
				}
			}
			n := 1 + c.Rng.Intn(3)
			sreq := "c03rseq"
			for i := 0; i < n; i++ {
				sreq += " " + Hx(inputs[c.Rng.Intn(len(inputs))])
			}
			sreq += " " + Hx(in)
			ans := c.Do(sreq, len(in) >= 16)
			c.Count("rtp-reuse:" + firstWord(ans))
			if ans == "panic" {
				viol(c, Violation{Signature: "C03/panic/jt1078.Decode", What: "jt1078 Decode panicked on a reused Packet", Input: sreq, Observed: "panic", Required: "an error or a packet"})
			} else if ans != fresh {
				viol(c, Violation{Signature: "C03/history/jt1078.Decode", What: "jt1078 Decode on a reused Packet differs from a fresh one", Input: sreq, Observed: Trunc(ans, 500), Required: Trunc(fresh, 500)})
			}
		}
	}
}

func seqInts(n int) []int {
	r := make([]int, n)
	for i := range r {
		r[i] = i
	}
	return r
}

var violCount = map[string]int{}

// viol records at most 3 violations per signature (the harness keeps 200 in total).
func viol(c *Ctx, v Violation) {
	violCount[v.Signature]++
	if violCount[v.Signature] <= 3 {
		c.Violate(v)
	}
}

func firstWord(s string) string {
	if i := strings.IndexByte(s, ' '); i >= 0 {
		return s[:i]
	}
	return s
}

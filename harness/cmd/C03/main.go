package main

// C03 — decoders are total functions of their input.
// Direct oracle: every exported Parse of protocol/model outside the location family (the location family is
// lib.C03Location), jt808 Decode and jt1078 Decode are run under recover() on exact-capacity copies; the same
// bytes inside larger buffers with two different poisoned tails; on receivers that already parsed other
// bodies; String() under recover().  Correspondence: the same requests answered by the extracted Coq model.

import (
	"bytes"
	"fmt"
	"reflect"
	"time"

	. "verifh/lib"

	"github.com/cuteLittleDevil/go-jt808/protocol/jt1078"
	"github.com/cuteLittleDevil/go-jt808/protocol/jt808"
	"github.com/cuteLittleDevil/go-jt808/shared/consts"
)

func main() { Main("C03", c03) }

type runner struct {
	c       *Ctx
	g       *Gen
	seen    map[string]struct{}
	slowest time.Duration
	// sampling of correspondence cases: every case below corrAll per (type,ver,dial) bucket, then 1 in corrEvery
	bucket    map[string]int
	corrAll   int
	corrEvery int
}

func asciiOnly(b []byte) bool {
	for _, x := range b {
		if x >= 0x80 {
			return false
		}
	}
	return true
}

// check runs every C03 oracle on one body of one type.
// prior: bodies a reused receiver parses first (may be nil -> chosen from pool).
func (r *runner) check(t *BodyType, ver, dial int, body []byte, pool [][]byte, kind string) {
	c := r.c
	key := fmt.Sprintf("%s %d %d %s", t.Name, ver, dial, Hx(body))
	if _, dup := r.seen[key]; dup {
		return
	}
	r.seen[key] = struct{}{}
	req := "bparse " + key
	t0 := time.Now()
	h := t.New(consts.ActiveSafetyType(dial))
	out := ParseInto(h, ver, Exact(body))
	el := time.Since(t0)
	if el > r.slowest {
		r.slowest = el
	}
	ans := out
	if out == "ok" {
		ans = "ok " + DumpHandler(h)
	}
	c.Count(kind + ":" + out)
	c.Count("type:" + t.Name + ":" + out)
	nontrivial := out == "ok" || len(body) > 0
	if el > 2*time.Second {
		viol(c, Violation{Signature: "C03/slow/" + t.Name, What: "Parse did not terminate promptly", Input: req,
			Observed: el.String(), Required: "returns promptly"})
	}
	if out == "panic" {
		viol(c, Violation{Signature: "C03/panic/" + t.Name, What: "Parse panicked on an exact-capacity body", Input: req,
			Observed: "panic", Required: "an error or a value"})
	}
	// (b) spare capacity with two different poisoned tails: same outcome and same value
	for _, fill := range []byte{0xAA, 0x55} {
		big := make([]byte, len(body)+64)
		copy(big, body)
		for i := len(body); i < len(big); i++ {
			big[i] = fill
		}
		h2 := t.New(consts.ActiveSafetyType(dial))
		o2 := ParseInto(h2, ver, big[:len(body)])
		a2 := o2
		if o2 == "ok" {
			a2 = "ok " + DumpHandler(h2)
		}
		if a2 != ans {
			viol(c, Violation{Signature: "C03/tail/" + t.Name, What: fmt.Sprintf("result depends on memory beyond the slice (tail filled with %#x)", fill),
				Input: req, Observed: a2, Required: "same as with exact capacity: " + Trunc(ans, 400)})
		}
	}
	// (c) receiver reuse: a receiver that parsed 1..3 other bodies first must end up with the same value
	if len(pool) > 0 {
		n := 1 + r.c.Rng.Intn(3)
		seq := make([]VerBody, 0, n+1)
		vers := t.Versions()
		for i := 0; i < n; i++ {
			seq = append(seq, VerBody{vers[r.c.Rng.Intn(len(vers))], pool[r.c.Rng.Intn(len(pool))]})
		}
		seq = append(seq, VerBody{ver, body})
		a3 := BodyParseSeq(t, dial, seq)
		reqs := "bseq " + fmt.Sprintf("%s %d", t.Name, dial)
		for _, s := range seq {
			reqs += " " + s.String()
		}
		if a3 != ans {
			viol(c, Violation{Signature: "C03/history/" + t.Name, What: "outcome depends on what the receiver parsed before",
				Input: reqs, Observed: Trunc(a3, 600), Required: "same as a fresh receiver: " + Trunc(ans, 600)})
		}
		if emitSeq := r.bucket["seq/"+t.Name]; emitSeq < r.corrAll*4 || emitSeq%r.corrEvery == 0 {
			c.Case(reqs, a3, true)
		} else {
			c.Eval(reqs, false)
		}
		r.bucket["seq/"+t.Name]++
	}
	// (d) rendering
	if out == "ok" {
		if s, p := SafeString(h); p {
			viol(c, Violation{Signature: "C03/string/" + t.Name, What: "String() panicked on a parsed value", Input: req,
				Observed: "panic: " + s, Required: "text"})
		}
	}
	// correspondence case (sampled); GBK text is only comparable when it is pure ASCII (identity) in the model
	emit := true
	if t.Gbk && out == "ok" && !asciiOnly(body) {
		emit = false
	}
	bk := fmt.Sprintf("%s/%d/%d/%s", t.Name, ver, dial, kind)
	r.bucket[bk]++
	if r.bucket[bk] > r.corrAll && r.bucket[bk]%r.corrEvery != 0 {
		emit = false
	}
	if emit {
		c.Case(req, ans, nontrivial)
	} else {
		c.Eval(req, nontrivial)
	}
}

func c03(c *Ctx) {
	c.Rule = "per exported message type x header version x dialect: every body length 0..guard+3 with 0x00 / 0xFF fill, valid bodies from the real Encode of random in-domain values, every truncation of them, every position x {boundary byte values (quick) | all 256 values (thorough)}, random mutations, each also with poisoned spare capacity and on reused receivers; frames and RTP packets likewise. A case is non-trivial when the body is non-empty or parses; distinct = distinct (type,version,dialect,bytes)"
	r := &runner{c: c, g: &Gen{R: c.Rng, Big: !c.Quick()}, seen: map[string]struct{}{}, bucket: map[string]int{},
		corrAll: 40, corrEvery: 23}
	if !c.Quick() {
		r.corrAll, r.corrEvery = 400, 7
	}
	nvalid, nmut := 6, 60
	vals := []int{0, 1, 2, 3, 4, 7, 8, 15, 16, 31, 32, 127, 128, 220, 240, 254, 255}
	if !c.Quick() {
		nvalid, nmut = 40, 1500
		vals = nil
		for i := 0; i < 256; i++ {
			vals = append(vals, i)
		}
	}
	for _, t := range BodyTypes {
		for _, ver := range t.Versions() {
			for _, dial := range t.Dialects() {
				d := consts.ActiveSafetyType(dial)
				// valid bodies
				var pool [][]byte
				for i := 0; i < nvalid; i++ {
					v, ok := r.g.Value(t, ver, d)
					if !ok {
						break
					}
					b, p := SafeEncode(v)
					if p {
						viol(c, Violation{Signature: "C03/encode-panic/" + t.Name, What: "Encode panicked on an in-domain value",
							Input: "benc " + fmt.Sprintf("%s %d %d %s", t.Name, ver, dial, DumpHandler(v)), Observed: "panic", Required: "bytes"})
						continue
					}
					pool = append(pool, b)
				}
				if t.Name == "T0x0104" { // one-way: build bodies by hand
					for i := 0; i < nvalid; i++ {
						ids := r.g.RandomParamIDs()
						pool = append(pool, append([]byte{byte(c.Rng.Intn(256)), byte(c.Rng.Intn(256)), byte(len(ids))}, r.g.ParamsWire(ids)...))
					}
				}
				pool = append(pool, nil, []byte{0}, []byte{0xFF})
				// (1) every length with zero / 0xFF fill
				maxl := t.MaxLen + 3
				if !c.Quick() && maxl < 300 {
					maxl = 300
				}
				for n := 0; n <= maxl; n++ {
					r.check(t, ver, dial, make([]byte, n), pool, "zero")
					r.check(t, ver, dial, bytes.Repeat([]byte{0xFF}, n), pool, "ff")
					r.check(t, ver, dial, bytes.Repeat([]byte{0x01}, n), pool, "one")
				}
				// (2) valid bodies, truncations, extensions, byte sweeps, mutations
				for bi, b := range pool {
					r.check(t, ver, dial, b, pool, "valid")
					if len(b) > 1500 {
						continue
					}
					for n := 0; n < len(b); n++ {
						if n > 200 && n%7 != 0 && c.Quick() {
							continue
						}
						r.check(t, ver, dial, b[:n], pool, "trunc")
					}
					r.check(t, ver, dial, append(append([]byte{}, b...), 0), pool, "extend")
					r.check(t, ver, dial, append(append([]byte{}, b...), 0xFF, 0xFF, 0xFF, 0xFF, 0xFF, 0xFF), pool, "extend")
					if bi < 3 || !c.Quick() {
						lim := len(b)
						if lim > 140 {
							lim = 140
						}
						for pos := 0; pos < lim; pos++ {
							for _, v := range vals {
								m := append([]byte{}, b...)
								m[pos] = byte(v)
								r.check(t, ver, dial, m, pool, "sweep")
							}
						}
					}
					for i := 0; i < nmut && len(b) > 0; i++ {
						m := append([]byte{}, b...)
						for k := 0; k <= c.Rng.Intn(3); k++ {
							switch c.Rng.Intn(4) {
							case 0:
								m[c.Rng.Intn(len(m))] = byte(c.Rng.Intn(256))
							case 1:
								m[c.Rng.Intn(len(m))] ^= 1 << uint(c.Rng.Intn(8))
							case 2:
								p := c.Rng.Intn(len(m))
								m = append(m[:p], m[p+1:]...)
							case 3:
								p := c.Rng.Intn(len(m) + 1)
								m = append(m[:p], append([]byte{byte(c.Rng.Intn(256))}, m[p:]...)...)
							}
							if len(m) == 0 {
								break
							}
						}
						r.check(t, ver, dial, m, pool, "mutate")
					}
				}
			}
		}
	}
	c03Frames(c, r)
	c03Rtp(c, r)
	C03Location(c)
	c.Extra["slowest_parse"] = r.slowest.String()
	c.Extra["types"] = len(BodyTypes)
	c.Exhaustive = false
}

// ---------------------------------------------------------------- jt808 frames

func mkFrame(rng interface{ Intn(int) int }, ver2019, frag bool, bodyLen int, g *Gen) []byte {
	attr := uint16(bodyLen & 0x3FF)
	if ver2019 {
		attr |= 1 << 14
	}
	if frag {
		attr |= 1 << 13
	}
	p := []byte{byte(rng.Intn(256)), byte(rng.Intn(256)), byte(attr >> 8), byte(attr)}
	if ver2019 {
		p = append(p, 1)
		p = append(p, g.Bytes(10)...)
	} else {
		p = append(p, g.Bytes(6)...)
	}
	p = append(p, byte(rng.Intn(256)), byte(rng.Intn(256)))
	if frag {
		p = append(p, byte(rng.Intn(2)), byte(rng.Intn(256)), byte(rng.Intn(2)), byte(rng.Intn(256)))
	}
	p = append(p, g.Bytes(bodyLen)...)
	var x byte
	for _, b := range p {
		x ^= b
	}
	p = append(p, x)
	out := []byte{0x7e}
	for _, b := range p {
		switch b {
		case 0x7e:
			out = append(out, 0x7d, 0x02)
		case 0x7d:
			out = append(out, 0x7d, 0x01)
		default:
			out = append(out, b)
		}
	}
	return append(out, 0x7e)
}

func c03Frames(c *Ctx, r *runner) {
	one := func(f []byte, pool [][]byte, kind string) {
		req := "decode " + Hx(f)
		if _, dup := r.seen[req]; dup {
			return
		}
		r.seen[req] = struct{}{}
		ans := c.Do(req, len(f) > 2)
		c.Count("frame:" + kind + ":" + firstWord(ans))
		if ans == "panic" {
			viol(c, Violation{Signature: "C03/panic/jt808.Decode", What: "frame Decode panicked", Input: req, Observed: ans, Required: "an error or a message"})
		}
		// poisoned spare capacity
		for _, fill := range []byte{0xAA, 0x7e} {
			big := make([]byte, len(f)+32)
			copy(big, f)
			for i := len(f); i < len(big); i++ {
				big[i] = fill
			}
			a2 := func() (s string) {
				defer func() {
					if recover() != nil {
						s = "panic"
					}
				}()
				m := jt808.NewJTMessage()
				if err := m.Decode(big[:len(f)]); err != nil {
					return ProtoErrCode(err)
				}
				return CanonMsg(m)
			}()
			if a2 != ans {
				viol(c, Violation{Signature: "C03/tail/jt808.Decode", What: "frame Decode depends on memory beyond the slice", Input: req, Observed: a2, Required: ans})
			}
		}
		// reused JTMessage
		if len(pool) > 0 {
			n := 1 + c.Rng.Intn(3)
			reqs := "decodeseq"
			for i := 0; i < n; i++ {
				reqs += " " + Hx(pool[c.Rng.Intn(len(pool))])
			}
			reqs += " " + Hx(f)
			a3 := c.Do(reqs, true)
			if a3 != ans {
				viol(c, Violation{Signature: "C03/history/jt808.Decode", What: "frame Decode on a reused JTMessage differs from a fresh one",
					Input: reqs, Observed: Trunc(a3, 500), Required: Trunc(ans, 500)})
			}
			if s := func() (s string) {
				defer func() {
					if recover() != nil {
						s = "panic"
					}
				}()
				m := jt808.NewJTMessage()
				if m.Decode(Exact(f)) == nil {
					_ = m.Header.String()
				}
				return ""
			}(); s == "panic" {
				viol(c, Violation{Signature: "C03/string/jt808.Header", What: "Header.String() panicked", Input: req, Observed: "panic", Required: "text"})
			}
		}
	}
	var pool [][]byte
	reps := 4
	if !c.Quick() {
		reps = 60
	}
	for _, v19 := range []bool{false, true} {
		for _, frag := range []bool{false, true} {
			for _, bl := range []int{0, 1, 5, 28, 100} {
				for i := 0; i < reps; i++ {
					pool = append(pool, mkFrame(c.Rng, v19, frag, bl, r.g))
				}
			}
		}
	}
	for n := 0; n <= 40; n++ {
		one(bytes.Repeat([]byte{0x7e}, n), pool, "fill7e")
		one(bytes.Repeat([]byte{0x7d}, n), pool, "fill7d")
		one(make([]byte, n), pool, "zero")
		if n >= 2 {
			z := make([]byte, n)
			z[0], z[n-1] = 0x7e, 0x7e
			one(z, pool, "zero-delimited")
			f := bytes.Repeat([]byte{0xFF}, n)
			f[0], f[n-1] = 0x7e, 0x7e
			one(f, pool, "ff-delimited")
			q := bytes.Repeat([]byte{0x7d}, n)
			q[0], q[n-1] = 0x7e, 0x7e
			one(q, pool, "7d-delimited")
		}
	}
	for _, f := range pool {
		one(f, pool, "valid")
		for n := 0; n < len(f); n++ {
			if c.Quick() && len(f) > 40 && n%5 != 0 {
				continue
			}
			t := append(append([]byte{}, f[:n]...), 0x7e)
			one(t, pool, "trunc")
		}
		nm := 10
		if !c.Quick() {
			nm = 100
		}
		for i := 0; i < nm; i++ {
			m := append([]byte{}, f...)
			p := c.Rng.Intn(len(m))
			switch c.Rng.Intn(3) {
			case 0:
				m[p] = byte(c.Rng.Intn(256))
			case 1:
				m[p] = []byte{0x7d, 0x7e, 0x01, 0x02}[c.Rng.Intn(4)]
			case 2:
				m[p] ^= 1 << uint(c.Rng.Intn(8))
			}
			one(m, pool, "mutate")
		}
	}
}

// ---------------------------------------------------------------- jt1078 on reused receivers

func rtp(dt, sub uint8, bl int, g *Gen) []byte {
	b := []byte{0x30, 0x31, 0x63, 0x64, 0x81, 0x62, 0, 1}
	b = append(b, g.Bytes(6)...)
	b = append(b, 1, dt<<4|sub)
	if dt != 4 {
		b = append(b, g.Bytes(8)...)
	}
	if dt <= 2 {
		b = append(b, g.Bytes(4)...)
	}
	b = append(b, byte(bl>>8), byte(bl))
	return append(b, g.Bytes(bl)...)
}

func c03Rtp(c *Ctx, r *runner) {
	var pool [][]byte
	for dt := 0; dt < 16; dt++ {
		for _, bl := range []int{0, 1, 2, 30} {
			pool = append(pool, rtp(uint8(dt), uint8(c.Rng.Intn(16)), bl, r.g))
		}
	}
	var inputs [][]byte
	for _, p := range pool {
		inputs = append(inputs, p)
		for n := 0; n < len(p); n++ {
			inputs = append(inputs, p[:n])
		}
		inputs = append(inputs, append(append([]byte{}, p...), 0x30, 0x31))
	}
	for n := 0; n < 40; n++ {
		inputs = append(inputs, make([]byte, n), bytes.Repeat([]byte{0xFF}, n))
	}
	reps := 1
	if !c.Quick() {
		reps = 8
	}
	for rep := 0; rep < reps; rep++ {
		for _, in := range inputs {
			fresh := RunOp("jt1078 " + Hx(in))
			if rep == 0 {
				c.Case("jt1078 "+Hx(in), fresh, len(in) >= 16)
				if fresh == "panic" {
					viol(c, Violation{Signature: "C03/panic/jt1078.Decode", What: "jt1078 Decode panicked (fresh Packet)", Input: "jt1078 " + Hx(in), Observed: "panic", Required: "an error or a packet"})
				}
				// String() of a decoded packet
				func() {
					defer func() {
						if recover() != nil {
							viol(c, Violation{Signature: "C03/string/jt1078.Packet", What: "Packet.String() panicked", Input: "jt1078 " + Hx(in), Observed: "panic", Required: "text"})
						}
					}()
					p := jt1078.NewPacket()
					if _, err := p.Decode(Exact(in)); err == nil {
						_ = p.String()
					}
				}()
			}
			n := 1 + c.Rng.Intn(3)
			req := "jt1078seq"
			for i := 0; i < n; i++ {
				req += " " + Hx(inputs[c.Rng.Intn(len(inputs))])
			}
			req += " " + Hx(in)
			ans := c.Do(req, len(in) >= 16)
			c.Count("rtp-reuse:" + firstWord(ans))
			if ans == "panic" {
				viol(c, Violation{Signature: "C03/panic/jt1078.Decode", What: "jt1078 Decode panicked on a reused Packet", Input: req, Observed: "panic", Required: "an error or a packet"})
			} else if ans != fresh {
				viol(c, Violation{Signature: "C03/history/jt1078.Decode", What: "jt1078 Decode on a reused Packet differs from a fresh one", Input: req, Observed: Trunc(ans, 500), Required: Trunc(fresh, 500)})
			}
		}
	}
}

var violCount = map[string]int{}

// viol records at most 3 violations per signature (the harness keeps 200 in total).
func viol(c *Ctx, v Violation) {
	violCount[v.Signature]++
	if violCount[v.Signature] <= 3 {
		c.Violate(v)
	}
}

func firstWord(s string) string {
	for i := 0; i < len(s); i++ {
		if s[i] == ' ' {
			return s[:i]
		}
	}
	return s
}

var _ = reflect.TypeOf

package main

// C04 — stream framing is independent of TCP segmentation.
//
// Correspondence: op "up" (packageParse.unpack through VerifParser.Unpack, one call per chunk) and
// op "sp" (packageParse.parse through VerifParser.Feed) against the extracted Model/Unpack.v /
// Model/Subpkg.v, per call: error number, history length, messages (id, serial, sum, no, body,
// raw frame).
// Direct oracle (implementation only; expectation computed from the generator's own frame
// builder, no code of /repo, no model): for every partition of a stream of valid frames the
// messages delivered over all reads are exactly one per frame, in order, with the frame's id /
// serial / body / raw bytes; no read reports an error; the history is empty at the end; and after
// every read the number of messages delivered so far equals the number of frames whose closing
// delimiter has been fed (not before, not later).

import (
	"fmt"
	"strings"

	. "verifh/lib"
)

func main() {
	Main("C04", c04)
}

type stream struct {
	frames []FrameSpec
	wire   []byte
	ends   []int // offset just after each frame's closing delimiter
	canon  []string
}

func mkStream(fs []FrameSpec) stream {
	s := stream{frames: fs}
	for _, f := range fs {
		w := f.Wire()
		s.wire = append(s.wire, w...)
		s.ends = append(s.ends, len(s.wire))
		s.canon = append(s.canon, f.Canon())
	}
	return s
}

func c04(c *Ctx) {
	c.Rule = "streams of 1..8 valid frames built by an independent builder (2013/2019, bodies 0..1023, escape-dense / UTF-8-like / plain bodies, escaped phones, serials and check codes, fragmented headers) x partitions into reads: every 1-cut and every 2-cut of short streams exhaustively, byte by byte, frame by frame, all in one read, cuts forced inside headers / between 7d and its partner / just before and after every delimiter, random k-cuts, reads limited to 1023 bytes; plus malformed streams (correspondence only). A case is non-trivial when at least one read boundary falls strictly inside a frame or one read holds two or more frames; distinct = distinct request lines"
	rng := c.Rng
	quick := c.Quick()

	check := func(s stream, chunks [][]byte, kind string, useFeed bool) {
		var req string
		var obs []StreamObs
		for _, f := range s.frames {
			if f.Frag { // through parse a fragmented frame also drives the reassembler: C05's subject
				useFeed = false
			}
		}
		if useFeed {
			st := make([]Step, len(chunks))
			for i, ch := range chunks {
				st[i] = Step{Data: ch}
			}
			req = "sp " + StepsString(st)
			obs = RunScript(st)
		} else {
			req = "up " + HexChunks(chunks, "")
			obs = RunUnpack(chunks)
		}
		// non-trivial?
		nontriv := false
		off, fi := 0, 0
		for _, ch := range chunks {
			off += len(ch)
			n := 0
			for fi < len(s.ends) && s.ends[fi] <= off {
				fi++
				n++
			}
			if n >= 2 {
				nontriv = true
			}
			if off < len(s.wire) {
				inside := true
				for _, e := range s.ends {
					if e == off {
						inside = false
					}
				}
				if inside {
					nontriv = true
				}
			}
		}
		c.Case(req, ObsString(obs), nontriv)
		c.Count(kind)
		// ---- direct oracle
		viol := func(sig, what, observed, required string) {
			c.Violate(Violation{Signature: "C04/" + sig, What: what, Input: req, Observed: Trunc(observed, 3000), Required: Trunc(required, 3000)})
		}
		var all []string
		fed, done := 0, 0
		for i, o := range obs {
			if o.Err != "0" {
				viol("error", fmt.Sprintf("read %d of a stream of valid frames reported an error/panic", i), o.String(), "no error")
				return
			}
			all = append(all, o.Msgs...)
			fed += len(chunks[i])
			for done < len(s.ends) && s.ends[done] <= fed {
				done++
			}
			if len(all) != done {
				viol("prompt", fmt.Sprintf("after read %d (%d bytes fed) %d messages delivered, %d closing delimiters fed", i, fed, len(all), done),
					fmt.Sprintf("%d messages", len(all)), fmt.Sprintf("%d messages", done))
				return
			}
		}
		if len(obs) != len(chunks) {
			viol("error", "not every read was processed", fmt.Sprint(len(obs)), fmt.Sprint(len(chunks)))
			return
		}
		if strings.Join(all, ";") != strings.Join(s.canon, ";") {
			viol("segmentation", "messages extracted differ from the frames sent", strings.Join(all, ";"), strings.Join(s.canon, ";"))
			return
		}
		if len(obs) > 0 && obs[len(obs)-1].Hist != 0 {
			viol("history", "history not empty after the last frame", fmt.Sprint(obs[len(obs)-1].Hist), "0")
		}
	}

	unfrag := func(blen int) FrameSpec { return RandFrame(rng, blen) }
	anyFrame := func(blen int) FrameSpec {
		f := RandFrame(rng, blen)
		if rng.Intn(4) == 0 { // a fragmented header (for unpack it is just a longer header)
			f.Frag = true
			f.Sum = uint16(1 + rng.Intn(5))
			f.No = uint16(rng.Intn(7))
			if rng.Intn(4) == 0 {
				f.Sum, f.No = 0x7e7e, 0x7d7d
			}
		}
		return f
	}

	// (1) short streams: every 1-cut and 2-cut, both through unpack and through parse
	nshort := 3
	if !quick {
		nshort = 30
	}
	for i := 0; i < nshort; i++ {
		k := 2 + rng.Intn(2)
		var fs []FrameSpec
		for j := 0; j < k; j++ {
			fs = append(fs, unfrag([]int{0, 0, 1, 2, 5}[rng.Intn(5)]))
		}
		s := mkStream(fs)
		n := len(s.wire)
		check(s, [][]byte{s.wire}, "short/whole", false)
		for a := 1; a < n; a++ {
			check(s, Chunks(s.wire, []int{a}), "short/1cut", i%2 == 1)
			for b := a + 1; b < n; b++ {
				check(s, Chunks(s.wire, []int{a, b}), "short/2cut", i%2 == 1)
			}
		}
		var bw []int
		for a := 1; a < n; a++ {
			bw = append(bw, a)
		}
		check(s, Chunks(s.wire, bw), "short/bytewise", false)
		check(s, Chunks(s.wire, bw), "short/bytewise", true)
	}
	c.Exhaustive = true

	// (2) medium and large streams with structured and random partitions
	nmed, nlarge := 60, 10
	if !quick {
		nmed, nlarge = 1500, 150
	}
	structured := func(s stream, tag string) {
		n := len(s.wire)
		feed := func(chunks [][]byte, kind string) {
			chunks = LimitChunks(chunks, 1023)
			check(s, chunks, tag+"/"+kind, rng.Intn(2) == 0)
		}
		feed([][]byte{s.wire}, "whole")
		feed(Chunks(s.wire, s.ends), "framewise")
		if n <= 3000 || !quick {
			var bw []int
			for a := 1; a < n; a++ {
				bw = append(bw, a)
			}
			feed(Chunks(s.wire, bw), "bytewise")
		}
		// forced cuts: inside every header, around every delimiter, inside every escape pair
		var hdr, delim, esc []int
		start := 0
		for _, e := range s.ends {
			hdr = append(hdr, start+1+rng.Intn(12))
			delim = append(delim, e-1, start+1)
			start = e
		}
		for i := 0; i+1 < n; i++ {
			if s.wire[i] == 0x7d {
				esc = append(esc, i+1)
			}
		}
		feed(Chunks(s.wire, sortedUniq(hdr)), "in-header")
		feed(Chunks(s.wire, sortedUniq(delim)), "at-delimiter")
		if len(esc) > 0 {
			feed(Chunks(s.wire, sortedUniq(esc)), "in-escape")
			feed(Chunks(s.wire, sortedUniq(append(append(esc, delim...), hdr...))), "all-forced")
		}
		// coalesced: cuts only at some frame boundaries
		var some []int
		for _, e := range s.ends {
			if rng.Intn(2) == 0 {
				some = append(some, e)
			}
		}
		feed(Chunks(s.wire, some), "coalesced")
		for r := 0; r < 4; r++ {
			feed(Chunks(s.wire, RandCuts(rng, n, 1+rng.Intn(12))), "random")
		}
		// every frame but one whole, one frame split at a random inner point
		if len(s.ends) > 1 {
			j := rng.Intn(len(s.ends))
			st := 0
			if j > 0 {
				st = s.ends[j-1]
			}
			cut := st + 1 + rng.Intn(s.ends[j]-st-1)
			feed(Chunks(s.wire, sortedUniq(append(append([]int{}, s.ends...), cut))), "one-split")
		}
	}
	for i := 0; i < nmed; i++ {
		k := 1 + rng.Intn(8)
		var fs []FrameSpec
		for j := 0; j < k; j++ {
			fs = append(fs, anyFrame([]int{0, 1, 3, 17, 60, 200}[rng.Intn(6)]))
		}
		structured(mkStream(fs), "medium")
	}
	for i := 0; i < nlarge; i++ {
		k := 1 + rng.Intn(4)
		var fs []FrameSpec
		for j := 0; j < k; j++ {
			fs = append(fs, anyFrame([]int{1023, 1022, 1000, 999, 512, 700, 0}[rng.Intn(7)]))
		}
		structured(mkStream(fs), "large")
	}

	// (4) reader level over a real socket: the same stream written to a real server in different
	// segmentations; observable = the reader's dispatch events (executed / not supported) in order.
	// Unfragmented frames of supported and unsupported ids on one connection.
	supported := map[uint16]bool{0x0001: true, 0x0002: true, 0x0200: true, 0x8003: true, 0x0003: false, 0x0f01: false, 0x0f02: false, 0x7e7d: false, 0x0005: false}
	nsock := 25
	if !quick {
		nsock = 400
	}
	loc28 := func() []byte {
		b := make([]byte, 28)
		rng.Read(b[:22])
		copy(b[22:], []byte{0x24, 0x10, 0x01, 0x12, 0x30, 0x59})
		return b
	}
	for i := 0; i < nsock; i++ {
		v2019 := rng.Intn(2) == 0
		phone := RandPhone(rng, v2019)
		k := 2 + rng.Intn(7)
		var fs []FrameSpec
		var want []string
		serial := uint16(rng.Intn(65536))
		for j := 0; j < k; j++ {
			ids := []uint16{0x0002, 0x0002, 0x0003, 0x0200, 0x0f01, 0x0001, 0x7e7d, 0x0005, 0x8003, 0x0f02}
			id := ids[rng.Intn(len(ids))]
			var body []byte
			switch id {
			case 0x0200:
				body = loc28()
			case 0x0001:
				body = []byte{byte(rng.Intn(256)), byte(rng.Intn(256)), 0x80, 0x01, 0}
			case 0x0f01, 0x7e7d:
				body = RandBody(rng, []int{0, 1, 7, 40, 300}[rng.Intn(5)])
			case 0x0f02: // one frame larger than the 1023-byte read buffer once escaped
				body = make([]byte, 1000+rng.Intn(24))
				for x := range body {
					body[x] = []byte{0x7e, 0x7d, 0x7e, 0x01}[rng.Intn(4)]
				}
			case 0x8003: // a re-request sent by the terminal: handed to the writer's channel, no reader callback
				body = []byte{0, 1, 1, 0, 2}
			}
			f := FrameSpec{ID: id, Ver2019: v2019, Phone: phone, Serial: serial, Body: body}
			serial++
			fs = append(fs, f)
			kind := "N"
			if supported[id] {
				kind = "E"
			}
			if id != 0x8003 {
				want = append(want, fmt.Sprintf("%s:%d,%d,%s", kind, f.ID, f.Serial, Hx(f.Body)))
			}
		}
		s := mkStream(fs)
		n := len(s.wire)
		var some []int
		for _, e := range s.ends {
			if rng.Intn(2) == 0 {
				some = append(some, e)
			}
		}
		type seg struct {
			kind   string
			chunks [][]byte
		}
		for _, sg := range []seg{{"whole", [][]byte{s.wire}}, {"framewise", Chunks(s.wire, s.ends)}, {"coalesced", Chunks(s.wire, some)},
			{"random", Chunks(s.wire, RandCuts(rng, n, 1+rng.Intn(6)))}, {"random2", Chunks(s.wire, RandCuts(rng, n, 1+rng.Intn(12)))},
			{"in-escape", Chunks(s.wire, escCuts(s.wire))}, {"at-delimiter", Chunks(s.wire, delimCuts(s.ends))}, {"bytewise", bytewiseIfShort(s.wire)}} {
			kind, chunks := sg.kind, sg.chunks
			if chunks == nil {
				continue
			}
			req := "rd " + HexChunks(chunks, "")
			ans := c.Do(req, len(chunks) != len(fs))
			c.Count("socket/" + kind)
			late := append([]string{}, SockLate...)
			if len(late) > 0 { // slowness alone is never a violation: ask again, report only what persists
				c.Count("socket/late-retry")
				if again := RunOp(req); again == ans && len(SockLate) > 0 {
					c.Violate(Violation{Signature: "C04/reader_prompt", What: "after a read the reader had not dispatched every frame whose closing delimiter was already sent (twice in a row, 400 ms each)",
						Input: req, Observed: strings.Join(SockLate, " "), Required: "after each write: events = frames closed so far (bytes sent:have/want)"})
				}
			}
			w := "ok " + strings.Join(want, ";")
			if len(want) == 0 {
				w = "ok -"
			}
			if ans != w {
				c.Violate(Violation{Signature: "C04/reader_" + kind, What: "the reader's dispatch events over a real connection differ from the frames sent",
					Input: req, Observed: Trunc(ans, 3000), Required: Trunc(w, 3000)})
			}
		}
	}

	// (3) malformed streams: correspondence only (what the code does with garbage is C02/C10's
	// subject; here it pins the model's error paths and history handling to the code)
	nmal := 1500
	if !quick {
		nmal = 40000
	}
	for i := 0; i < nmal; i++ {
		k := 1 + rng.Intn(4)
		var wire []byte
		for j := 0; j < k; j++ {
			wire = append(wire, anyFrame([]int{0, 1, 4, 30}[rng.Intn(4)]).Wire()...)
			if rng.Intn(3) == 0 { // garbage between frames
				g := make([]byte, rng.Intn(4))
				for x := range g {
					g[x] = []byte{0x7e, 0x7e, 0x7d, 0x00, 0x02, byte(rng.Intn(256))}[rng.Intn(6)]
				}
				wire = append(wire, g...)
			}
		}
		for m := rng.Intn(3); m > 0; m-- {
			switch rng.Intn(4) {
			case 0: // flip a byte
				wire[rng.Intn(len(wire))] ^= byte(1 << rng.Intn(8))
			case 1: // delete a byte
				p := rng.Intn(len(wire))
				wire = append(wire[:p:p], wire[p+1:]...)
			case 2: // insert a delimiter
				p := rng.Intn(len(wire))
				wire = append(wire[:p:p], append([]byte{0x7e}, wire[p:]...)...)
			case 3: // truncate the front
				wire = wire[rng.Intn(len(wire)):]
			}
			if len(wire) == 0 {
				wire = []byte{0x7e}
			}
		}
		var chunks [][]byte
		switch rng.Intn(4) {
		case 0:
			chunks = [][]byte{wire}
		case 1:
			var bw []int
			for a := 1; a < len(wire); a++ {
				bw = append(bw, a)
			}
			chunks = Chunks(wire, bw)
		default:
			chunks = Chunks(wire, RandCuts(rng, len(wire), 1+rng.Intn(5)))
		}
		chunks = LimitChunks(chunks, 1023)
		if rng.Intn(2) == 0 {
			ans := RunUnpack(chunks)
			c.Case("up "+HexChunks(chunks, ""), ObsString(ans), len(chunks) > 1)
		} else {
			st := make([]Step, len(chunks))
			for x, ch := range chunks {
				st[x] = Step{Data: ch}
			}
			c.Case("sp "+StepsString(st), ObsString(RunScript(st)), len(chunks) > 1)
		}
		c.Count("malformed")
	}
}

func sortedUniq(a []int) []int {
	m := map[int]bool{}
	max := 0
	for _, x := range a {
		m[x] = true
		if x > max {
			max = x
		}
	}
	var out []int
	for x := 0; x <= max; x++ {
		if m[x] {
			out = append(out, x)
		}
	}
	return out
}

func escCuts(wire []byte) []int {
	var cuts []int
	for i := 0; i+1 < len(wire); i++ {
		if wire[i] == 0x7d {
			cuts = append(cuts, i+1)
		}
	}
	if len(cuts) == 0 {
		return []int{len(wire) / 2}
	}
	if len(cuts) > 40 {
		cuts = cuts[:40]
	}
	return cuts
}

func delimCuts(ends []int) []int {
	var cuts []int
	for _, e := range ends {
		cuts = append(cuts, e-1)
	}
	return sortedUniq(cuts)
}

func bytewiseIfShort(wire []byte) [][]byte {
	if len(wire) > 160 {
		return nil
	}
	var cuts []int
	for a := 1; a < len(wire); a++ {
		cuts = append(cuts, a)
	}
	return Chunks(wire, cuts)
}

package main

// C15 — attachment upload: files are reassembled byte-exactly.
//
// op (lib/ops_attach.go; model side oracle/drv_c15.ml):
//   att <dialect> <segment-hex>...   one real attachment connection (connection.run through VerifRun over
//                                    net.Pipe: one segment = one Read), recording FileEventer, reply bytes
//
// The direct oracle keeps its own account of a session (which tiles of which file have been sent so far)
// and requires, event by event: one event per unit in order, CurrentSize = bytes of distinct tiles received,
// "complete" exactly when every tile has arrived and then StreamBody = the original, one reply per control
// frame with consecutive platform serials and the prescribed body, and the same events for every
// segmentation of the same byte stream.

import (
	"bytes"
	"fmt"
	"sort"
	"strings"

	. "verifh/lib"
)

type fileSpec struct {
	name    []byte
	content []byte
	tiles   []AttSeg
}

type unit struct {
	kind  int // 0x1210, 0x1211, 0x1212, 0 = chunk
	bytes []byte
	file  int
	tile  int
	ser   uint16
}

type session struct {
	d     int
	v2019 bool
	bcd   []byte
	files []fileSpec
	units []unit
}

func (s *session) stream() []byte {
	var b []byte
	for _, u := range s.units {
		b = append(b, u.bytes...)
	}
	return b
}

func (s *session) unitSegs() [][]byte {
	var segs [][]byte
	for _, u := range s.units {
		segs = append(segs, u.bytes)
	}
	return segs
}

// dropHist removes the segmentation-dependent observable (bytes still buffered at the event)
func dropHist(canon string) string {
	var out []string
	for _, t := range strings.Fields(canon) {
		if !strings.HasPrefix(t, "hist=") {
			out = append(out, t)
		}
	}
	return strings.Join(out, " ")
}

func main() {
	Main("C15", c15)
}

func c15(c *Ctx) {
	c.Rule = "upload sessions: 1..4 files (sizes 1 byte .. 3 chunk sizes, chunk sizes 1/7/64/4096, names and alarm ids over arbitrary bytes incl. 30 31 63 64), 0x1210 / optional 0x1211 / chunks / 0x1212 (+ resend and a second 0x1212 when tiles were withheld), all chunk orders for <= 4 chunks (exhaustive), duplicates before and after completion, five dialects (HLJ length-prefixed chunk header), both header versions, non-uniform splits (random cut points) with a second 0x1210 in mid-session, file names of every length up to the header limits; a zero-length chunk before a 0x1212 (known finding), a 0x1212 for a never announced file after a real one (known finding), names with NUL bytes in the middle (normal uploads, direct oracle), bulk uploads (256 KiB and 1 MiB files in 64 KiB chunks written back to back, delivered as the server's 100 KiB reads, and unit by unit), NUL-ended file names (direct oracle: known finding), 126..255 single-byte gaps (0x9212 bodies over 1023 bytes: correspondence of the bytes only); each stream fed unit by unit, coalesced into one read, with every 1-cut (short streams), byte by byte (short streams) and random k-cuts; plus malformed streams (garbage, truncated frames, unknown ids, chunks of unknown files, bad 0x1210 bodies) for the correspondence. A case is non-trivial when the stream holds at least one chunk and one control frame; distinct = distinct request lines"
	rng := c.Rng

	randName := func(d int, i int) []byte {
		var n []byte
		switch rng.Intn(6) {
		case 5: // NUL bytes INSIDE the name (the header field is NUL padded and trimmed at its ends only)
			n = []byte{byte('p' + i), 0, 'q', 0, 0, byte('r' + i)}
		case 0:
			n = []byte(fmt.Sprintf("file_%d.jpg", i))
		case 1: // contains the chunk marker
			n = []byte(fmt.Sprintf("01cd%d01cd", i))
		case 2: // arbitrary bytes, no NUL at the ends (the chunk header is NUL padded / trimmed)
			n = make([]byte, 1+rng.Intn(20))
			rng.Read(n)
			n[0] |= 1
			n[len(n)-1] |= 1
			n = append(n, byte('0'+i))
		case 3: // maximal length for the fixed header
			n = bytes.Repeat([]byte{byte('a' + i)}, 50)
		default:
			n = []byte{byte('A' + i)}
		}
		if d == AttHLJ && rng.Intn(4) == 0 {
			n = append(bytes.Repeat([]byte{0x7e}, 60), n...) // longer than 50: only the HLJ header can carry it
		}
		return n
	}
	tile := func(size int, cs int) []AttSeg {
		var t []AttSeg
		for o := 0; o < size; o += cs {
			l := cs
			if o+l > size {
				l = size - o
			}
			t = append(t, AttSeg{O: uint32(o), L: uint32(l)})
		}
		return t
	}
	newSession := func(nfiles int, sizes []int, css []int) *session {
		s := &session{d: AttDialects[rng.Intn(5)], v2019: rng.Intn(2) == 0}
		s.bcd = make([]byte, 6)
		rng.Read(s.bcd)
		if s.v2019 {
			s.bcd = append(make([]byte, 4), s.bcd...)
		}
		for i := 0; i < nfiles; i++ {
			f := fileSpec{name: randName(s.d, i), content: make([]byte, sizes[i])}
			rng.Read(f.content)
			if rng.Intn(3) == 0 && sizes[i] >= 8 { // marker and delimiter bytes inside the data
				copy(f.content[rng.Intn(sizes[i]-7):], []byte{0x30, 0x31, 0x63, 0x64, 0x7e, 0x7d, 0x7e, 0x30})
			}
			f.tiles = tile(sizes[i], css[i])
			s.files = append(s.files, f)
		}
		return s
	}
	ser := uint16(0)
	ctrl := func(s *session, kind int, file int) unit {
		ser++
		var body []byte
		switch kind {
		case 0x1210:
			pre := make([]byte, 120)
			rng.Read(pre)
			if rng.Intn(2) == 0 { // the marker inside terminal id / alarm sign / alarm id
				copy(pre[rng.Intn(50):], []byte{0x30, 0x31, 0x63, 0x64})
			}
			var items []AttItem
			for _, f := range s.files {
				items = append(items, AttItem{Name: f.name, Size: uint32(len(f.content))})
			}
			body = Body1210(s.d, pre, byte(rng.Intn(2)), -1, items)
		default:
			body = Body1211(s.files[file].name, byte(rng.Intn(5)), uint32(len(s.files[file].content)))
		}
		return unit{kind: kind, bytes: Frame808(uint16(kind), s.v2019, s.bcd, ser, body), file: file, ser: ser}
	}
	chunk := func(s *session, file, t int) unit {
		f := s.files[file]
		tl := f.tiles[t]
		return unit{kind: 0, bytes: Chunk(s.d, f.name, tl.O, f.content[tl.O:tl.O+tl.L]), file: file, tile: t}
	}

	// ---- the direct oracle on one run of a session
	check := func(s *session, req string, res AttResult, what string) {
		bad := func(sig, obs, reqd string) {
			c.Violate(Violation{Signature: "C15/" + sig, What: "attachment upload (" + what + ")", Input: req, Observed: Trunc(obs, 600), Required: reqd})
		}
		if res.Panic != "" || res.Stuck {
			bad("panic", "panic="+res.Panic, "no panic")
			return
		}
		if len(res.Events) != len(s.units)+1 {
			bad("events", fmt.Sprintf("%d events for %d units: %s", len(res.Events), len(s.units), AttCanon(res)), "one event per unit and the final one")
			return
		}
		got := make([]map[int]bool, len(s.files)) // tiles received so far
		for i := range got {
			got[i] = map[int]bool{}
		}
		var wantWire []byte
		nctrl := 0
		announced := false
		for k, u := range s.units {
			e := res.Events[k]
			wantStage := 0
			switch u.kind {
			case 0x1210:
				wantStage, announced = 1, true
				for i := range got {
					got[i] = map[int]bool{}
				}
			case 0x1211:
				wantStage = 2
			case 0x1212:
				wantStage = 6
			case 0:
				got[u.file][u.tile] = true
				wantStage = 3
				if len(got[u.file]) == len(s.files[u.file].tiles) {
					wantStage = 5
				}
			}
			_ = announced
			// per-file account
			var have [][]AttSeg
			for i, f := range s.files {
				var hv []AttSeg
				for t := range got[i] {
					hv = append(hv, f.tiles[t])
				}
				sort.Slice(hv, func(a, b int) bool { return hv[a].O < hv[b].O })
				have = append(have, hv)
			}
			if u.kind == 0x1212 && len(RefGaps(uint64(len(s.files[u.file].content)), have[u.file])) > 0 {
				wantStage = 4
			}
			if e.Stage != wantStage {
				bad("stage", fmt.Sprintf("event %d: stage %d", k, e.Stage), fmt.Sprintf("stage %d", wantStage))
				return
			}
			for i, f := range s.files {
				var ef *AttFile
				for j := range e.Files {
					if e.Files[j].Name == string(f.name) {
						ef = &e.Files[j]
					}
				}
				if ef == nil {
					bad("record", fmt.Sprintf("event %d: file %x missing", k, f.name), "a record per announced file")
					return
				}
				sum := uint32(0)
				for _, h := range have[i] {
					sum += h.L
				}
				complete := len(got[i]) == len(f.tiles)
				if ef.CurrentSize != sum || ef.FileSize != uint32(len(f.content)) {
					bad("size", fmt.Sprintf("event %d file %d: CurrentSize %d FileSize %d", k, i, ef.CurrentSize, ef.FileSize),
						fmt.Sprintf("CurrentSize %d (bytes of distinct chunks received) FileSize %d", sum, len(f.content)))
					return
				}
				if (ef.CurrentSize == ef.FileSize) != complete {
					bad("complete-iff", fmt.Sprintf("event %d file %d: CurrentSize %d of %d", k, i, ef.CurrentSize, ef.FileSize), "complete exactly when every byte has arrived")
					return
				}
				if complete && !bytes.Equal(ef.Body, f.content) {
					bad("content", fmt.Sprintf("event %d file %d: body of %d bytes differs from the original of %d", k, i, len(ef.Body), len(f.content)), "byte-identical content")
					return
				}
			}
			// the reply
			if u.kind != 0 {
				var want []byte
				if u.kind == 0x1212 {
					f := s.files[u.file]
					gaps := RefGaps(uint64(len(f.content)), have[u.file])
					_, _, _, _, b1212, _ := Parse808(u.bytes)
					rb := append([]byte{}, b1212[:2+len(f.name)]...) // name length, name, type
					if len(gaps) == 0 {
						rb = append(rb, 0, 0)
					} else {
						rb = append(rb, 1, byte(len(gaps)))
						for _, g := range gaps {
							rb = append(rb, byte(g.O>>24), byte(g.O>>16), byte(g.O>>8), byte(g.O), byte(g.L>>24), byte(g.L>>16), byte(g.L>>8), byte(g.L))
						}
					}
					want = Frame808(0x9212, s.v2019, s.bcd, uint16(nctrl), rb)
				} else {
					want = Frame808(0x8001, s.v2019, s.bcd, uint16(nctrl), []byte{byte(u.ser >> 8), byte(u.ser), byte(u.kind >> 8), byte(u.kind), 0})
				}
				nctrl++
				if !bytes.Equal(e.Reply, want) {
					bad("reply", fmt.Sprintf("event %d: reply %x", k, e.Reply), fmt.Sprintf("%x", want))
					return
				}
				wantWire = append(wantWire, want...)
			}
		}
		if !bytes.Equal(res.Wire, wantWire) {
			bad("replied-once", fmt.Sprintf("wire %x", res.Wire), fmt.Sprintf("exactly one reply per control frame, in order: %x", wantWire))
		}
		if last := res.Events[len(res.Events)-1]; last.Stage != 7 {
			bad("final", fmt.Sprintf("final stage %d", last.Stage), "7 (success quit)")
		}
	}
	// one session under several segmentations
	nseg := 0
	play := func(s *session, what string, thorough bool) {
		stream := s.stream()
		nontriv := false
		for _, u := range s.units {
			if u.kind == 0 {
				nontriv = true
			}
		}
		var ref string
		try := func(segs [][]byte, how string) {
			req := AttRequest(s.d, segs)
			res := AttRun(s.d, segs, nil)
			can := AttCanon(res)
			c.Case(req, can, nontriv)
			c.Count(what + "/" + how)
			nseg++
			check(s, req, res, what+"/"+how)
			if ref == "" {
				ref = dropHist(can)
			} else if dropHist(can) != ref {
				c.Violate(Violation{Signature: "C15/segmentation", What: "the same byte stream in a different segmentation gives different events (" + how + ")",
					Input: req, Observed: Trunc(dropHist(can), 500), Required: Trunc(ref, 500)})
			}
		}
		try(s.unitSegs(), "units")
		try([][]byte{stream}, "coalesced")
		if len(stream) <= 400 || thorough && len(stream) <= 1500 {
			step := 1
			if len(stream) > 200 && !thorough {
				step = 3
			}
			for p := 1; p < len(stream); p += step {
				try(Cuts(stream, []int{p}), "1-cut")
			}
		}
		if len(stream) <= 300 {
			var bb [][]byte
			for i := range stream {
				bb = append(bb, stream[i:i+1])
			}
			try(bb, "bytewise")
		}
		for r := 0; r < 3; r++ {
			k := 1 + rng.Intn(6)
			var pos []int
			for i := 0; i < k; i++ {
				pos = append(pos, 1+rng.Intn(len(stream)))
			}
			sort.Ints(pos)
			try(Cuts(stream, pos), "k-cut")
		}
	}

	// (1) exhaustive chunk orders: one file of 1..4 chunks, every permutation, every single duplicate
	perms := func(n int) [][]int {
		var out [][]int
		var rec func(cur []int, used int)
		rec = func(cur []int, used int) {
			if len(cur) == n {
				out = append(out, append([]int{}, cur...))
				return
			}
			for i := 0; i < n; i++ {
				if used&(1<<i) == 0 {
					rec(append(cur, i), used|1<<i)
				}
			}
		}
		rec(nil, 0)
		return out
	}
	nperm := 0
	for n := 1; n <= 4; n++ {
		for _, cs := range []int{1, 7} {
			size := (n-1)*cs + 1 + rng.Intn(cs)
			for _, pm := range perms(n) {
				for dup := -1; dup < n; dup++ {
					if c.Quick() && n == 4 && dup > 0 {
						continue
					}
					s := newSession(1, []int{size}, []int{cs})
					s.units = append(s.units, ctrl(s, 0x1210, 0), ctrl(s, 0x1211, 0))
					for i, t := range pm {
						s.units = append(s.units, chunk(s, 0, t))
						if i == dup {
							s.units = append(s.units, chunk(s, 0, pm[rng.Intn(i+1)])) // a chunk already sent, again
						}
					}
					s.units = append(s.units, ctrl(s, 0x1212, 0))
					if dup == n-1 {
						s.units = append(s.units, chunk(s, 0, rng.Intn(n))) // after completion
						s.units = append(s.units, ctrl(s, 0x1212, 0))
					}
					play(s, "orders", false)
					nperm++
				}
			}
		}
	}
	c.Extra["exhaustive_order_sessions"] = nperm
	c.Exhaustive = true

	// (1b) file-name lengths across the limits of the chunk header's name field, every dialect: the 50-byte NUL
	// padded field (1, 2, 49, 50) and the length-prefixed HLJ field (1 .. 255, dense around the uint8 boundary:
	// header length 4+1+n+4+4 reaches 256 at n = 243); the same names travel in 0x1210 / 0x1211 / 0x1212 / 0x9212
	nameLens := func(d int) []int {
		if d != AttHLJ {
			return []int{1, 2, 3, 25, 48, 49, 50}
		}
		l := []int{1, 2, 3, 49, 50, 51, 64, 127, 128, 129, 200, 230}
		for n := 238; n <= 255; n++ {
			l = append(l, n)
		}
		return l
	}
	nlen := 0
	for _, d := range AttDialects {
		for _, n := range nameLens(d) {
			if c.Quick() && d != AttHLJ && n > 3 && n < 48 {
				continue
			}
			s := newSession(2, []int{9, 3}, []int{4, 64})
			s.d = d
			nm := make([]byte, n)
			for i := range nm {
				nm[i] = byte('a' + (i+n)%26)
			}
			if n > 8 {
				copy(nm[2:], []byte{0x30, 0x31, 0x63, 0x64}) // the marker inside the name
			}
			s.files[0].name = nm
			s.files[1].name = []byte{'z'}
			if n == 1 {
				s.files[1].name = []byte("zz")
			}
			s.units = append(s.units, ctrl(s, 0x1210, 0), ctrl(s, 0x1211, 0), chunk(s, 0, 2), chunk(s, 0, 0), ctrl(s, 0x1212, 0),
				chunk(s, 1, 0), chunk(s, 0, 1), chunk(s, 0, 1), ctrl(s, 0x1212, 0), ctrl(s, 0x1212, 1))
			play(s, "name-length", false)
			nlen++
		}
	}
	c.Extra["name_length_sessions"] = nlen

	// (2) random sessions
	nrand := 60
	if !c.Quick() {
		nrand = 3000
	}
	for i := 0; i < nrand; i++ {
		nf := 1 + rng.Intn(4)
		var sizes, css []int
		for j := 0; j < nf; j++ {
			cs := []int{1, 7, 64, 4096}[rng.Intn(4)]
			if cs == 4096 && rng.Intn(3) > 0 {
				cs = 64
			}
			nchunks := 1 + rng.Intn(3)
			size := (nchunks-1)*cs + 1 + rng.Intn(cs)
			if cs == 1 {
				size = 1 + rng.Intn(6)
			}
			sizes, css = append(sizes, size), append(css, cs)
		}
		s := newSession(nf, sizes, css)
		s.units = append(s.units, ctrl(s, 0x1210, 0))
		// per file: 1211, its chunks in random order (some withheld, some duplicated), 1212, resend, 1212;
		// files sequential or interleaved
		var perFile [][]unit
		for f := range s.files {
			var us []unit
			if rng.Intn(4) > 0 {
				us = append(us, ctrl(s, 0x1211, f))
			}
			order := rng.Perm(len(s.files[f].tiles))
			var withheld []int
			for _, t := range order {
				if rng.Intn(5) == 0 {
					withheld = append(withheld, t)
					continue
				}
				us = append(us, chunk(s, f, t))
				if rng.Intn(6) == 0 {
					us = append(us, chunk(s, f, t))
				}
			}
			us = append(us, ctrl(s, 0x1212, f))
			if len(withheld) > 0 {
				for _, t := range withheld {
					us = append(us, chunk(s, f, t))
				}
				us = append(us, ctrl(s, 0x1212, f))
			}
			perFile = append(perFile, us)
		}
		if rng.Intn(2) == 0 {
			for _, us := range perFile {
				s.units = append(s.units, us...)
			}
		} else { // interleave, keeping each file's own order
			for {
				var live []int
				for f, us := range perFile {
					if len(us) > 0 {
						live = append(live, f)
					}
				}
				if len(live) == 0 {
					break
				}
				f := live[rng.Intn(len(live))]
				s.units = append(s.units, perFile[f][0])
				perFile[f] = perFile[f][1:]
			}
		}
		play(s, "random", !c.Quick())
	}

	// (1c) announced names with NUL bytes in the MIDDLE, in normal uploads with chunks, every dialect: the fixed header field
	// is NUL padded to 50 bytes and trimmed at both ends, the HLJ field carries its length - an interior NUL belongs to the name
	for _, d := range AttDialects {
		for ni, nm := range [][]byte{{'a', 0, 'b'}, {1, 0, 0, 2}, {'x', 0}, {0x30, 0x31, 0x63, 0x64, 0, 'z'}, append(append(bytes.Repeat([]byte{'k'}, 24), 0), bytes.Repeat([]byte{'k'}, 25)...)} {
			if len(nm) == 2 { // "x\x00" ends in NUL: outside the domain; made interior by a suffix
				nm = append(nm, 'y')
			}
			s := newSession(2, []int{9, 3}, []int{4, 64})
			s.d = d
			s.files[0].name = nm
			s.files[1].name = []byte{'z', byte('0' + ni)}
			s.units = append(s.units, ctrl(s, 0x1210, 0), ctrl(s, 0x1211, 0), chunk(s, 0, 1), ctrl(s, 0x1212, 0),
				chunk(s, 1, 0), chunk(s, 0, 0), chunk(s, 0, 2), chunk(s, 0, 1), ctrl(s, 0x1212, 0), ctrl(s, 0x1212, 1))
			play(s, "interior-nul", false)
		}
	}

	// (1d) bulk uploads: files of 256 KiB and 1 MiB in chunks of 64 KiB (the wire's usual maximum), all chunks written back to
	// back.  connection.run reads at most 100 KiB at a time (curData), so a long write reaches the server as reads of
	// 102400 bytes: each request line carries exactly those reads (the model's run takes the reads as given), and the
	// buffered backlog legitimately reaches a partial chunk plus a whole read (~164 KiB).  Also one read per unit.
	for bi, size := range []int{256 << 10, 1 << 20} {
		s := newSession(1, []int{size}, []int{64 << 10})
		s.files[0].name = []byte(fmt.Sprintf("bulk%d.bin", bi))
		s.units = append(s.units, ctrl(s, 0x1210, 0), ctrl(s, 0x1211, 0))
		order := rng.Perm(len(s.files[0].tiles))
		if bi == 0 {
			order = nil
			for t := range s.files[0].tiles {
				order = append(order, t)
			}
		}
		for _, t := range order {
			s.units = append(s.units, chunk(s, 0, t))
		}
		s.units = append(s.units, ctrl(s, 0x1212, 0))
		stream := s.stream()
		var reads [][]byte
		for o := 0; o < len(stream); o += 102400 {
			e := o + 102400
			if e > len(stream) {
				e = len(stream)
			}
			reads = append(reads, stream[o:e])
		}
		var ref string
		for hi, segs := range [][][]byte{reads, s.unitSegs()} {
			how := []string{"back-to-back", "units"}[hi]
			req := AttRequest(s.d, segs)
			res := AttRun(s.d, segs, nil)
			can := AttCanon(res)
			c.Case(req, can, true)
			c.Count("bulk/" + how)
			check(s, req, res, "bulk/"+how)
			if ref == "" {
				ref = dropHist(can)
			} else if dropHist(can) != ref {
				c.Violate(Violation{Signature: "C15/segmentation", What: "a bulk upload gives different events back to back and unit by unit",
					Input: req, Observed: Trunc(dropHist(can), 500), Required: Trunc(ref, 500)})
			}
		}
	}

	// (2b) non-uniform splits (random cut points) and a second 0x1210 in mid-session (every Package starts again)
	nnu := 40
	if !c.Quick() {
		nnu = 2000
	}
	for i := 0; i < nnu; i++ {
		size := 2 + rng.Intn(60)
		s := newSession(2, []int{size, 1 + rng.Intn(9)}, []int{64, 4})
		var tl []AttSeg
		last := 0
		for _, p := range append(RandCuts(rng, size, 1+rng.Intn(5)), size) {
			tl = append(tl, AttSeg{O: uint32(last), L: uint32(p - last)})
			last = p
		}
		s.files[0].tiles = tl
		s.units = append(s.units, ctrl(s, 0x1210, 0), ctrl(s, 0x1211, 0))
		for _, t := range rng.Perm(len(tl)) {
			if rng.Intn(3) > 0 {
				s.units = append(s.units, chunk(s, 0, t))
			}
		}
		s.units = append(s.units, chunk(s, 1, 0), ctrl(s, 0x1212, 0))
		if i%2 == 0 {
			s.units = append(s.units, ctrl(s, 0x1210, 0)) // announced again: nothing received counts any more
			s.units = append(s.units, ctrl(s, 0x1212, 1))
		}
		for _, t := range rng.Perm(len(tl)) {
			s.units = append(s.units, chunk(s, 0, t))
			if rng.Intn(4) == 0 {
				s.units = append(s.units, chunk(s, 0, rng.Intn(len(tl))))
			}
		}
		s.units = append(s.units, ctrl(s, 0x1212, 0), ctrl(s, 0x1212, 1))
		play(s, "non-uniform", false)
	}

	// (2c) a zero-length chunk (legal on the wire, not a piece of any split): the server records (offset, 0) and
	// StatisticalMissSegments then cuts the missing range at that offset - two adjacent ranges instead of the one
	// maximal range C16 promises.  Known finding C15/zero-length-chunk.
	for _, d := range AttDialects {
		s := newSession(1, []int{10}, []int{5})
		s.d = d
		s.files[0].name = []byte("zero.bin")
		nm := s.files[0].name
		segs := [][]byte{ctrl(s, 0x1210, 0).bytes, Chunk(d, nm, 5, nil), ctrl(s, 0x1212, 0).bytes}
		req := AttRequest(d, segs)
		res := AttRun(d, segs, nil)
		c.Case(req, AttCanon(res), true)
		c.Count("zero-length-chunk")
		frames, _ := SplitFrames(res.Wire)
		if len(frames) == 2 {
			if _, _, _, _, body, ok := Parse808(frames[1]); ok {
				if _, _, _, _, list, ok2 := Ref9212(body); ok2 && !AttSegsEq(list, []AttSeg{{O: 0, L: 10}}) {
					c.Violate(Violation{Signature: "C15/zero-length-chunk",
						What:  "after a zero-length chunk at offset 5 of an otherwise empty 10-byte file the 0x9212 report is not the maximal missing range",
						Input: req, Observed: AttSegsStr(list), Required: AttSegsStr([]AttSeg{{O: 0, L: 10}})})
				}
			}
		}
	}

	// (2e) a 0x1212 for a file that was never announced: (i) after a 0x1212 of a real file that left a retransmit list -
	// the handler answers with the list it still holds, the ranges of ANOTHER file; (ii) as the first 0x1212 of the
	// connection - the handler answers "complete, nothing to retransmit" for a file it never saw.  Judged on every 0x9212
	// frame on the wire that names the unknown file, however many frames came back (finding C15/1212-unknown-file)
	for _, d := range AttDialects {
		for variant := 0; variant < 2; variant++ {
			s := newSession(1, []int{10}, []int{5})
			s.d = d
			s.files[0].name = []byte("real.bin")
			ghost := []byte("ghost.bin")
			ghost1212 := Frame808(0x1212, s.v2019, s.bcd, 77, Body1211(ghost, 0, 4))
			segs := [][]byte{ctrl(s, 0x1210, 0).bytes, chunk(s, 0, 0).bytes}
			if variant == 0 {
				segs = append(segs, ctrl(s, 0x1212, 0).bytes)
			}
			segs = append(segs, ghost1212)
			req := AttRequest(d, segs)
			res := AttRun(d, segs, nil)
			c.Case(req, AttCanon(res), true)
			c.Count("1212-unknown-file")
			frames, _ := SplitFrames(res.Wire)
			for _, fr := range frames {
				id, _, _, _, body, ok := Parse808(fr)
				if !ok || id != 0x9212 {
					continue
				}
				if nm, _, result, _, list, ok2 := Ref9212(body); ok2 && bytes.Equal(nm, ghost) {
					c.Violate(Violation{Signature: "C15/1212-unknown-file",
						What:  "the completion report of a file that was never announced is answered as if the server knew the file",
						Input: req, Observed: fmt.Sprintf("0x9212 for %q: result %d, ranges %s", nm, result, AttSegsStr(list)),
						Required: "no completion response for a file the connection never announced (neither another file's ranges nor 'complete')"})
					break
				}
			}
		}
	}

	// (2f) file names with a NUL byte at an end, announced in 0x1210 and sent in the chunk headers as announced: the
	// header's name field is trimmed on both sides (every dialect, also the length-prefixed HLJ field), so the chunk names
	// another file, the session aborts and the file is never reassembled.  Direct oracle = the property: the upload
	// completes with the original content and every control frame is answered (finding C15/nul-ended-name; in the fixed
	// 50-byte field a TRAILING NUL cannot be told from the padding - a limit of the format, reported all the same)
	for _, d := range AttDialects {
		for _, nm := range [][]byte{{0, 'a', 'b'}, {'a', 'b', 0}, {0, 'a', 0}, {0}, {0, 0, 'x', 'y', 'z', 0, 0}} {
			s := newSession(1, []int{6}, []int{3})
			s.d = d
			s.files[0].name = nm
			segs := [][]byte{ctrl(s, 0x1210, 0).bytes, ctrl(s, 0x1211, 0).bytes, chunk(s, 0, 1).bytes, chunk(s, 0, 0).bytes, ctrl(s, 0x1212, 0).bytes}
			req := AttRequest(d, segs)
			res := AttRun(d, segs, nil)
			c.Case(req, AttCanon(res), true)
			c.Count("nul-ended-name")
			if res.Panic != "" {
				c.Violate(Violation{Signature: "C15/panic", What: "a NUL-ended file name made connection.run panic", Input: req, Observed: res.Panic, Required: "no panic"})
				continue
			}
			done := false
			if n := len(res.Events); n > 0 {
				for _, f := range res.Events[n-1].Files {
					if f.Name == string(nm) && f.CurrentSize == f.FileSize && bytes.Equal(f.Body, s.files[0].content) {
						done = true
					}
				}
			}
			frames, _ := SplitFrames(res.Wire)
			if !done || len(frames) != 3 || len(res.Events) != len(segs)+1 {
				c.Violate(Violation{Signature: "C15/nul-ended-name",
					What:  "a file announced under a name with a NUL byte at an end is never reassembled: its chunk headers are trimmed to another name",
					Input: req, Observed: fmt.Sprintf("%d events, %d answers, file complete with its content: %v", len(res.Events), len(frames), done),
					Required: fmt.Sprintf("%d events, 3 answers, the file complete with its %d original bytes", len(segs)+1, len(s.files[0].content))})
			}
		}
	}

	// (2d) 0x1212 answers whose list needs a body over 1023 bytes (127 or more ranges): Header.Encode writes the length
	// unmasked into the property word, the frame is not decodable (the coordinator's C16 finding); here only the
	// correspondence: the model's encode must produce the same bytes as the code, whatever they are
	for _, gaps := range []int{126, 127, 128, 200, 255} {
		size := 2*gaps + 1
		s := newSession(1, []int{size}, []int{1})
		segs := [][]byte{ctrl(s, 0x1210, 0).bytes}
		for o := 0; o < size; o += 2 { // every even byte arrives: the odd ones are the gaps
			segs = append(segs, chunk(s, 0, o).bytes)
		}
		segs = append(segs, ctrl(s, 0x1212, 0).bytes)
		var one []byte
		for _, g := range segs {
			one = append(one, g...)
		}
		for _, sg := range [][][]byte{segs, {one}} {
			res := AttRun(s.d, sg, nil)
			c.Case(AttRequest(s.d, sg), AttCanon(res), true)
			c.Count("many-gaps")
			if res.Panic != "" {
				c.Violate(Violation{Signature: "C15/panic", What: "an upload with many gaps made connection.run panic", Input: AttRequest(s.d, sg), Observed: res.Panic, Required: "no panic"})
			}
		}
	}

	// (3) malformed / hostile streams: correspondence of the mechanism (fatal paths, half units)
	nmal := 1500
	if !c.Quick() {
		nmal = 60000
	}
	for i := 0; i < nmal; i++ {
		s := newSession(1+rng.Intn(2), []int{1 + rng.Intn(20), 1 + rng.Intn(20)}, []int{7, 7})
		var stream []byte
		if rng.Intn(6) > 0 {
			stream = append(stream, ctrl(s, 0x1210, 0).bytes...)
		}
		for j := 0; j < rng.Intn(5); j++ {
			switch rng.Intn(10) {
			case 0: // chunk of a file that was never announced
				stream = append(stream, Chunk(s.d, []byte("nope"), 0, []byte{1, 2, 3})...)
			case 1: // unknown message id
				stream = append(stream, Frame808(uint16(rng.Intn(65536)), s.v2019, s.bcd, 1, []byte{1, 2, 3})...)
			case 2: // garbage
				g := make([]byte, rng.Intn(40))
				rng.Read(g)
				stream = append(stream, g...)
			case 3: // a frame with a damaged byte
				f := ctrl(s, 0x1211, 0).bytes
				f[1+rng.Intn(len(f)-2)] ^= byte(1 << rng.Intn(8))
				stream = append(stream, f...)
			case 4: // 0x1210 with adversarial count / truncated items
				items := []AttItem{{Name: []byte("abcdefg"), Size: 5}}
				b := Body1210(s.d, nil, 0, rng.Intn(4), items)
				b = b[:len(b)-rng.Intn(3)]
				stream = append(stream, Frame808(0x1210, s.v2019, s.bcd, 9, b)...)
			case 5: // chunk header with adversarial offset / length
				h := ChunkHead(s.d, s.files[0].name, uint32(rng.Int63n(1<<32)), uint32(rng.Intn(30)))
				stream = append(stream, h...)
				stream = append(stream, make([]byte, rng.Intn(30))...)
			case 6: // 0x1211 / 0x1212 with a wrong length byte
				b := Body1211(s.files[0].name, 0, 5)
				b[0] = byte(rng.Intn(256))
				stream = append(stream, Frame808(uint16(0x1211+rng.Intn(2)), s.v2019, s.bcd, 3, b)...)
			case 7: // 0x1212 for a file that is not announced (stale retransmit list)
				stream = append(stream, Frame808(0x1212, s.v2019, s.bcd, 3, Body1211([]byte("other"), 0, 5))...)
			case 8: // zero-length chunk, chunk beyond the announced size
				stream = append(stream, Chunk(s.d, s.files[0].name, uint32(rng.Intn(30)), make([]byte, rng.Intn(2)*rng.Intn(30)))...)
			default: // valid units
				f := rng.Intn(len(s.files))
				if rng.Intn(2) == 0 {
					stream = append(stream, chunk(s, f, rng.Intn(len(s.files[f].tiles))).bytes...)
				} else {
					stream = append(stream, ctrl(s, 0x1211+rng.Intn(2), f).bytes...)
				}
			}
		}
		if rng.Intn(4) == 0 && len(stream) > 0 { // the peer closes mid-unit
			stream = stream[:rng.Intn(len(stream))]
		}
		if len(stream) == 0 {
			stream = []byte{0x7e}
		}
		var pos []int
		for k := 0; k < rng.Intn(4); k++ {
			pos = append(pos, 1+rng.Intn(len(stream)))
		}
		sort.Ints(pos)
		d := s.d
		if rng.Intn(20) == 0 {
			d = 6 // ActiveSafetyBJ: widths of the default branch
		}
		segs := Cuts(stream, pos)
		res := AttRun(d, segs, nil)
		c.Case(AttRequest(d, segs), AttCanon(res), false)
		c.Count("malformed")
		if res.Panic != "" {
			c.Violate(Violation{Signature: "C15/panic-malformed", What: "a malformed stream made connection.run panic", Input: AttRequest(d, segs), Observed: res.Panic, Required: "the connection ends, no panic"})
		}
	}
	c.Extra["runs"] = nseg
}

package main

// C05 over a real socket: a service.New server in its default configuration (child process,
// recording TerminalEventer only).  Direct oracle: the handlers see exactly the unfragmented
// messages and, for every transfer, ONE message flagged complete whose body and TerminalData are
// the concatenation of the packet bodies, at the position of the packet that brought the last
// missing number; every such message gets exactly one reply frame (0x8001 echoing that packet's
// serial and the id; 0x8800 for 0x0801), addressed to the transfer's phone, platform serials
// 0,1,2,...; impossible numbers and duplicates produce nothing and do not kill the server.

import (
	"bytes"
	"fmt"
	"strings"

	. "verifh/lib"
)

func socketRun(c *Ctx) {
	rng := c.Rng
	n := 150
	if !c.Quick() {
		n = 1500
	}
	ids := []uint16{0x0200, 0x0704, 0x0801}
	for i := 0; i < n; i++ {
		ntr := 1 + rng.Intn(2)
		var trs []Transfer
		var queues [][]item
		rng.Shuffle(len(ids), func(a, b int) { ids[a], ids[b] = ids[b], ids[a] })
		for t := 0; t < ntr; t++ {
			np := 1 + rng.Intn(5)
			if rng.Intn(10) == 0 {
				np = 6 + rng.Intn(20)
			}
			tr := RandTransfer(rng, ids[t], np, []int{4, 40, 300}[rng.Intn(3)])
			if t > 0 && rng.Intn(2) == 0 {
				tr.Phone, tr.Ver2019 = trs[0].Phone, trs[0].Ver2019
			}
			trs = append(trs, tr)
		}
		for t := range trs {
			np := len(trs[t].Bodies)
			q := []item{{f: trs[t].Packet(1), tr: t, no: 1}}
			if rng.Intn(4) == 0 { // an impossible number right after packet 1
				q = append(q, item{f: trs[t].Odd([]int{0, np + 1, 65535}[rng.Intn(3)], RandBody(rng, 1+rng.Intn(4))), tr: -1})
			}
			for _, o := range rng.Perm(np - 1) {
				q = append(q, item{f: trs[t].Packet(o + 2), tr: t, no: o + 2})
				if rng.Intn(4) == 0 {
					d := 2 + rng.Intn(np-1)
					q = append(q, item{f: trs[t].Packet(d), tr: t, no: d})
				}
				if rng.Intn(6) == 0 {
					q = append(q, item{f: trs[t].Odd([]int{0, np + 1, 65535}[rng.Intn(3)], RandBody(rng, 1+rng.Intn(4))), tr: -1})
				}
			}
			queues = append(queues, q)
		}
		var items []item
		hb := uint16(100)
		for {
			var live []int
			for t, q := range queues {
				if len(q) > 0 {
					live = append(live, t)
				}
			}
			if len(live) == 0 {
				break
			}
			t := live[rng.Intn(len(live))]
			items = append(items, queues[t][0])
			queues[t] = queues[t][1:]
			if rng.Intn(5) == 0 {
				items = append(items, item{f: SyncFrame(trs[0].Phone, trs[0].Ver2019, hb), tr: -1})
				hb++
			}
		}
		s := scenario{trs, items}
		// steps: frame by frame / pairs coalesced / all in one write (<= 1023 bytes per write)
		var st []SkStep
		mode := rng.Intn(3)
		var pend []byte
		flush := func() {
			for len(pend) > 0 {
				k := len(pend)
				if k > 1023 {
					k = 1023
				}
				st = append(st, SkStep{Kind: 'w', Data: append([]byte{}, pend[:k]...)})
				pend = pend[k:]
			}
		}
		for k, it := range items {
			pend = append(pend, it.f.Wire()...)
			if mode == 0 || (mode == 1 && k%2 == 1) {
				flush()
			}
		}
		flush()
		sync := SyncFrame(trs[0].Phone, trs[0].Ver2019, 0xfff0)
		st = append(st, SkStep{Kind: 'y', Data: sync.Wire()})
		req := "sk " + SkStepsString(st)
		res := SkPlay(st)
		c.Eval(req, true)
		c.Count(fmt.Sprintf("socket/mode%d", mode))
		viol := func(sig, what, observed, required string) {
			c.Violate(Violation{Signature: "C05/socket-" + sig, What: what, Input: req, Observed: Trunc(observed, 3000), Required: Trunc(required, 3000)})
		}
		if res.Crashed {
			viol("crash", "the server process died", res.Stderr, "the server survives every input")
			continue
		}
		if res.Timeout != "" {
			viol("timeout", "the conversation did not finish: "+res.Timeout, res.String(), "an answer to the final heartbeat and an orderly close")
			continue
		}
		// expected callbacks and replies
		type exp struct {
			canon   string
			replyID uint16
			echoSer uint16
			echoID  uint16
			phone   []byte
		}
		var want []exp
		perFrame := s.expected()
		all := append(append([]item{}, items...), item{f: sync, tr: -1})
		perFrame = append(perFrame, []expMsg{{id: sync.ID, serial: sync.Serial, raw: Hx(sync.Wire())}})
		for k, it := range all {
			f := it.f
			for _, m := range perFrame[k] {
				switch {
				case m.complete:
					e := exp{canon: fmt.Sprintf("%d,%d,%d,%d,1,%s,%s,", f.ID, f.Serial, f.Sum, f.No, m.body, m.body), replyID: 0x8001, echoSer: f.Serial, echoID: f.ID, phone: f.Phone}
					if f.ID == 0x0801 {
						e.replyID = 0x8800
					}
					want = append(want, e)
				case !f.Frag:
					want = append(want, exp{canon: fmt.Sprintf("%d,%d,0,0,0,%s,%s,", f.ID, f.Serial, Hx(f.Body), Hx(f.Wire())), replyID: 0x8001, echoSer: f.Serial, echoID: f.ID, phone: f.Phone})
				}
			}
		}
		strip := func(s string) string { // drop the phone string (leading zeros are trimmed by the library)
			k := strings.LastIndex(s, ",")
			return s[:k+1]
		}
		var got []string
		for _, r := range res.Reads {
			got = append(got, strip(r))
		}
		var wantC []string
		for _, e := range want {
			wantC = append(wantC, e.canon)
		}
		if strings.Join(got, ";") != strings.Join(wantC, ";") {
			sig := "delivery"
			if len(got) == len(wantC) {
				sig = "content"
			}
			viol(sig, "the messages handed to OnReadExecutionEvent are not the unfragmented messages plus one complete message per transfer at the packet that completes it",
				strings.Join(got, ";"), strings.Join(wantC, ";"))
			continue
		}
		if len(res.Changed) > 0 {
			viol("unstable", "a delivered message changed after delivery", strings.Join(res.Changed, ";"), "delivered messages keep their content")
			continue
		}
		if len(res.Frames) != len(want) || len(res.Writes) != len(want) {
			viol("replies", fmt.Sprintf("%d reply frames and %d write callbacks for %d delivered messages", len(res.Frames), len(res.Writes), len(want)), res.String(), "exactly one reply per delivered message")
			continue
		}
		for k, e := range want {
			f := res.Frames[k]
			ok := f.OK && f.ID == e.replyID && bytes.Equal(f.Phone, e.phone) && int(f.Serial) == k
			if ok && e.replyID == 0x8001 {
				ok = len(f.Body) == 5 && f.Body[0] == byte(e.echoSer>>8) && f.Body[1] == byte(e.echoSer) && f.Body[2] == byte(e.echoID>>8) && f.Body[3] == byte(e.echoID) && f.Body[4] == 0
			}
			if !ok {
				viol("reply", fmt.Sprintf("reply %d is not the answer to delivered message %d", k, k), Hx(f.Raw),
					fmt.Sprintf("id=%04x phone=%x platform serial=%d echo serial=%d id=%04x", e.replyID, e.phone, k, e.echoSer, e.echoID))
				break
			}
		}
	}
}

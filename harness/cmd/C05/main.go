package main

// C05 — sub-package reassembly delivers exactly the original message.
//
// Correspondence: op "sp" (packageParse.parse through VerifParser.Feed, exact read boundaries)
// against the extracted Model/Subpkg.v: per read the error number, history length, pending
// transfers (id:slots) and every delivered message (id, serial, total, number, complete flag,
// body, TerminalData).
// Direct oracle (implementation only; expectation from the scenario itself): every frame yields
// its own message in the read that brings its closing delimiter; for every transfer exactly one
// message flagged complete, body = concatenation of the packet bodies in package-number order,
// delivered immediately after the packet that brings the last missing number and never before;
// duplicates, impossible numbers (0, N+1, 65535), unfragmented messages and other transfers
// change nothing; no error, no panic.  A socket-level run against a real service.New server
// checks the same through the handler callbacks and the reply frames on the wire.

import (
	"fmt"
	"strings"

	. "verifh/lib"
)

func main() {
	SockServeIfChild()
	Main("C05", c05)
}

type item struct {
	f  FrameSpec
	tr int // index of the transfer this is a proper packet of, -1 otherwise
	no int
}

type scenario struct {
	trs   []Transfer
	items []item
}

// expected flattened deliveries: per frame "own" (id,serial,sum,no,raw) and optionally a completion
type expMsg struct {
	complete bool
	id       uint16
	serial   uint16
	sum, no  uint16
	raw      string
	body     string
}

func (s scenario) expected() (perFrame [][]expMsg) {
	seen := make([]map[int]bool, len(s.trs))
	done := make([]bool, len(s.trs))
	for _, it := range s.items {
		f := it.f
		sum, no := uint16(0), uint16(0)
		if f.Frag {
			sum, no = f.Sum, f.No
		}
		out := []expMsg{{id: f.ID, serial: f.Serial, sum: sum, no: no, raw: Hx(f.Wire())}}
		if it.tr >= 0 {
			t := it.tr
			if it.no == 1 { // packet 1 (re)starts the transfer
				seen[t] = map[int]bool{}
				done[t] = false
			}
			if seen[t] != nil && !done[t] {
				seen[t][it.no] = true
				if len(seen[t]) == len(s.trs[t].Bodies) {
					done[t] = true
					out = append(out, expMsg{complete: true, id: f.ID, body: Hx(s.trs[t].Whole())})
				}
			}
		}
		perFrame = append(perFrame, out)
	}
	return
}

func c05(c *Ctx) {
	c.Rule = "exhaustive part (the exhaustive flag refers to it only): transfers of N packets, N = 1..6 in the quick tier / 1..7 in the thorough tier: every arrival order with packet 1 first, each order with every single duplicate of 2..N at every position (also after completion), and with each of the impossible numbers 0, N+1, 65535 at every position (also before packet 1); two interleaved transfers of 1..3 packets: every order of each x every interleaving. Sampled part: N in 7..40 and 255 with random orders, duplicates, impossible numbers, 1..3 concurrent ids, unfragmented messages interleaved; bodies non-empty equal/unequal with and without escape bytes, both versions (bodies and read segmentation of the exhaustive part are drawn at random per case); each scenario fed frame by frame, coalesced in one read (<=1023 bytes per read), with random cuts and byte by byte; plus ill-formed sub-package streams (correspondence only); plus histories whose reads are spread over time (clock steps of 5..20 s between reads, below 60 s in all, frames split over reads): reassembly unaffected, only generated 0x8003 messages added. A case is non-trivial when it contains a transfer of at least 2 packets; distinct = distinct request lines"
	rng := c.Rng
	quick := c.Quick()

	run := func(s scenario, chunks [][]byte, kind string) {
		st := make([]Step, len(chunks))
		for i, ch := range chunks {
			st[i] = Step{Data: ch}
		}
		req := "sp " + StepsString(st)
		obs := RunScript(st)
		nontriv := false
		for _, t := range s.trs {
			if len(t.Bodies) >= 2 {
				nontriv = true
			}
		}
		c.Case(req, ObsString(obs), nontriv)
		c.Count(kind)
		viol := func(sig, what, observed, required string) {
			c.Violate(Violation{Signature: "C05/" + sig, What: what, Input: req, Observed: Trunc(observed, 3000), Required: Trunc(required, 3000)})
		}
		exp := s.expected()
		// frame end offsets
		var ends []int
		off := 0
		for _, it := range s.items {
			off += len(it.f.Wire())
			ends = append(ends, off)
		}
		fed, fi := 0, 0
		for i, o := range obs {
			if o.Err != "0" {
				viol("error", fmt.Sprintf("read %d reported an error / panic", i), o.String(), "no error")
				return
			}
			fed += len(chunks[i])
			var want []expMsg
			for fi < len(ends) && ends[fi] <= fed {
				want = append(want, exp[fi]...)
				fi++
			}
			if len(o.Msgs) != len(want) {
				viol("count", fmt.Sprintf("read %d delivered %d messages, expected %d", i, len(o.Msgs), len(want)), strings.Join(o.Msgs, ";"), descr(want))
				return
			}
			for j, m := range o.Msgs {
				p := strings.Split(m, ",")
				w := want[j]
				if w.complete {
					if p[4] != "1" || p[0] != fmt.Sprint(w.id) || p[5] != w.body {
						viol("body", fmt.Sprintf("read %d message %d: the completed message is wrong", i, j), m, "complete id="+fmt.Sprint(w.id)+" body="+w.body)
						return
					}
				} else {
					if p[4] != "0" || p[0] != fmt.Sprint(w.id) || p[1] != fmt.Sprint(w.serial) || p[2] != fmt.Sprint(w.sum) || p[3] != fmt.Sprint(w.no) || p[6] != w.raw {
						viol("order", fmt.Sprintf("read %d message %d: not the expected packet / message", i, j), m, descr([]expMsg{w}))
						return
					}
				}
			}
		}
		if len(obs) != len(chunks) {
			viol("error", "not every read was processed", fmt.Sprint(len(obs)), fmt.Sprint(len(chunks)))
		}
	}

	wire := func(s scenario) ([]byte, []int) {
		var w []byte
		var ends []int
		for _, it := range s.items {
			w = append(w, it.f.Wire()...)
			ends = append(ends, len(w))
		}
		return w, ends
	}
	feedAll := func(s scenario, tag string, bytewise bool) {
		w, ends := wire(s)
		run(s, LimitChunks(Chunks(w, ends), 1023), tag+"/framewise")
		run(s, LimitChunks([][]byte{w}, 1023), tag+"/coalesced")
		run(s, LimitChunks(Chunks(w, RandCuts(rng, len(w), 1+rng.Intn(6))), 1023), tag+"/random-cuts")
		if bytewise {
			var bw []int
			for a := 1; a < len(w); a++ {
				bw = append(bw, a)
			}
			run(s, Chunks(w, bw), tag+"/bytewise")
		}
	}
	heartbeat := func() item {
		f := RandFrame(rng, []int{0, 0, 3}[rng.Intn(3)])
		return item{f: f, tr: -1}
	}
	pk := func(trs []Transfer, t, no int) item { return item{f: trs[t].Packet(no), tr: t, no: no} }

	// (1) exhaustive small scope: N = 1..maxN, all orders with packet 1 first, every single duplicate
	maxN := 6
	if !quick {
		maxN = 7
	}
	for n := 1; n <= maxN; n++ {
		rest := make([]int, 0, n)
		for k := 2; k <= n; k++ {
			rest = append(rest, k)
		}
		Perms(rest, func(order []int) {
			tr := RandTransfer(rng, []uint16{0x0801, 0x0704, 0x0200, 0x7e7d}[rng.Intn(4)], n, 6)
			trs := []Transfer{tr}
			base := []item{pk(trs, 0, 1)}
			for _, k := range order {
				base = append(base, pk(trs, 0, k))
			}
			feedAll(scenario{trs, base}, fmt.Sprintf("exh/N%d", n), n <= 3)
			// every single duplicate of 2..N at every later position (also after completion)
			if n >= 2 {
				for _, d := range order {
					for pos := 1; pos <= len(base); pos++ {
						// the duplicate must come after packet 1; it may precede its original
						items := append(append(append([]item{}, base[:pos]...), pk(trs, 0, d)), base[pos:]...)
						w, ends := wire(scenario{trs, items})
						if rng.Intn(2) == 0 {
							run(scenario{trs, items}, LimitChunks(Chunks(w, ends), 1023), fmt.Sprintf("exh-dup/N%d/framewise", n))
						} else {
							run(scenario{trs, items}, LimitChunks([][]byte{w}, 1023), fmt.Sprintf("exh-dup/N%d/coalesced", n))
						}
					}
				}
			}
			// impossible numbers at every position after packet 1 (and before it)
			for _, bad := range []int{0, n + 1, 65535} {
				for pos := 0; pos <= len(base); pos++ {
					items := append(append(append([]item{}, base[:pos]...), item{f: tr.Odd(bad, RandBody(rng, 1+rng.Intn(4))), tr: -1}), base[pos:]...)
					w, ends := wire(scenario{trs, items})
					if rng.Intn(2) == 0 {
						run(scenario{trs, items}, LimitChunks(Chunks(w, ends), 1023), "exh-bad/framewise")
					} else {
						run(scenario{trs, items}, LimitChunks(Chunks(w, RandCuts(rng, len(w), 3)), 1023), "exh-bad/random-cuts")
					}
				}
			}
		})
	}
	c.Exhaustive = true

	// (2) two interleaved transfers, all interleavings for N <= 3 (packet 1 first in each), with an
	// unfragmented message somewhere
	for n1 := 1; n1 <= 3; n1++ {
		for n2 := 1; n2 <= 3; n2++ {
			trs := []Transfer{RandTransfer(rng, 0x0801, n1, 5), RandTransfer(rng, 0x0704, n2, 5)}
			if rng.Intn(2) == 0 {
				trs[1].Phone, trs[1].Ver2019 = trs[0].Phone, trs[0].Ver2019
			}
			var seqA, seqB [][]int
			mk := func(n int, out *[][]int) {
				rest := []int{}
				for k := 2; k <= n; k++ {
					rest = append(rest, k)
				}
				Perms(rest, func(o []int) { *out = append(*out, append([]int{1}, o...)) })
			}
			mk(n1, &seqA)
			mk(n2, &seqB)
			for _, a := range seqA {
				for _, b := range seqB {
					// all interleavings: choose positions of a within len(a)+len(b)
					total := len(a) + len(b)
					for mask := 0; mask < 1<<total; mask++ {
						if popcount(mask) != len(a) {
							continue
						}
						var items []item
						ia, ib := 0, 0
						for p := 0; p < total; p++ {
							if mask>>p&1 == 1 {
								items = append(items, pk(trs, 0, a[ia]))
								ia++
							} else {
								items = append(items, pk(trs, 1, b[ib]))
								ib++
							}
						}
						if rng.Intn(2) == 0 {
							p := rng.Intn(len(items) + 1)
							items = append(append(append([]item{}, items[:p]...), heartbeat()), items[p:]...)
						}
						s := scenario{trs, items}
						w, ends := wire(s)
						switch rng.Intn(3) {
						case 0:
							run(s, LimitChunks(Chunks(w, ends), 1023), "interleaved/framewise")
						case 1:
							run(s, LimitChunks([][]byte{w}, 1023), "interleaved/coalesced")
						default:
							run(s, LimitChunks(Chunks(w, RandCuts(rng, len(w), 1+rng.Intn(5))), 1023), "interleaved/random-cuts")
						}
					}
				}
			}
		}
	}

	// (3) random larger scenarios: N in 7..40 and 255, duplicates, bad numbers, a second and third
	// transfer, unfragmented traffic, large bodies (escaped frames longer than a read)
	nrand := 500
	if !quick {
		nrand = 4000
	}
	for i := 0; i < nrand; i++ {
		var trs []Transfer
		ntr := 1 + rng.Intn(3)
		ids := []uint16{0x0801, 0x0704, 0x0200, 0x0805, 0x1205}
		rng.Shuffle(len(ids), func(a, b int) { ids[a], ids[b] = ids[b], ids[a] })
		var queues [][]item
		for t := 0; t < ntr; t++ {
			n := 7 + rng.Intn(34)
			switch rng.Intn(10) {
			case 0:
				n = 255
			case 1:
				n = 1 + rng.Intn(6)
			}
			maxBody := []int{3, 20, 200, 1023}[rng.Intn(4)]
			if n > 100 && maxBody > 20 {
				maxBody = 20
			}
			trs = append(trs, RandTransfer(rng, ids[t], n, maxBody))
		}
		for t := range trs {
			n := len(trs[t].Bodies)
			order := rng.Perm(n - 1)
			q := []item{pk(trs, t, 1)}
			for _, o := range order {
				q = append(q, pk(trs, t, o+2))
				if n >= 2 && rng.Intn(5) == 0 { // duplicate of a random packet 2..N
					q = append(q, pk(trs, t, 2+rng.Intn(n-1)))
				}
				if rng.Intn(8) == 0 {
					q = append(q, item{f: trs[t].Odd([]int{0, n + 1, 65535, n + 2 + rng.Intn(100)}[rng.Intn(4)], RandBody(rng, 1+rng.Intn(5))), tr: -1})
				}
			}
			if rng.Intn(3) == 0 && n >= 2 { // late duplicates after completion
				q = append(q, pk(trs, t, 2+rng.Intn(n-1)))
			}
			queues = append(queues, q)
		}
		var items []item
		for {
			var live []int
			for t, q := range queues {
				if len(q) > 0 {
					live = append(live, t)
				}
			}
			if len(live) == 0 {
				break
			}
			t := live[rng.Intn(len(live))]
			items = append(items, queues[t][0])
			queues[t] = queues[t][1:]
			if rng.Intn(6) == 0 {
				items = append(items, heartbeat())
			}
		}
		s := scenario{trs, items}
		w, ends := wire(s)
		switch rng.Intn(4) {
		case 0:
			run(s, LimitChunks(Chunks(w, ends), 1023), "random/framewise")
		case 1:
			run(s, LimitChunks([][]byte{w}, 1023), "random/coalesced")
		case 2:
			run(s, LimitChunks(Chunks(w, RandCuts(rng, len(w), 1+rng.Intn(20))), 1023), "random/random-cuts")
		default:
			if len(w) <= 4000 {
				var bw []int
				for a := 1; a < len(w); a++ {
					bw = append(bw, a)
				}
				run(s, Chunks(w, bw), "random/bytewise")
			} else {
				run(s, LimitChunks(Chunks(w, RandCuts(rng, len(w), 40)), 1023), "random/random-cuts")
			}
		}
	}

	// (4) ill-formed sub-package streams: arbitrary totals / numbers / empty bodies / repeated packet 1 /
	// totals changing in mid-transfer: outside the property, correspondence only (pins the model)
	nill := 4000
	if !quick {
		nill = 40000
	}
	for i := 0; i < nill; i++ {
		k := 1 + rng.Intn(10)
		ph := RandPhone(rng, false)
		var w []byte
		var ends []int
		for j := 0; j < k; j++ {
			f := FrameSpec{ID: []uint16{0x0801, 0x0704}[rng.Intn(2)], Phone: ph, Serial: uint16(rng.Intn(65536)), Frag: rng.Intn(8) != 0,
				Sum: uint16(rng.Intn(5)), No: uint16(rng.Intn(6)), Body: RandBody(rng, rng.Intn(4))}
			if rng.Intn(20) == 0 {
				f.Sum = uint16(rng.Intn(65536))
			}
			if rng.Intn(20) == 0 {
				f.No = uint16(rng.Intn(65536))
			}
			w = append(w, f.Wire()...)
			ends = append(ends, len(w))
		}
		var chunks [][]byte
		switch rng.Intn(3) {
		case 0:
			chunks = Chunks(w, ends)
		case 1:
			chunks = [][]byte{w}
		default:
			chunks = Chunks(w, RandCuts(rng, len(w), 1+rng.Intn(5)))
		}
		chunks = LimitChunks(chunks, 1023)
		st := make([]Step, len(chunks))
		for x, ch := range chunks {
			st[x] = Step{Data: ch}
		}
		c.Case("sp "+StepsString(st), ObsString(RunScript(st)), true)
		c.Count("ill-formed")
	}

	// (5) reads spread over time (C05_segmentation_timed): clock steps of 5..20 s between the reads, the
	// whole history below 60 s; the housekeeping pass may append generated 0x8003 messages to a read
	// (C14's subject: only checked to be nothing else), the reassembly must be unaffected
	ntimed := 300
	if !quick {
		ntimed = 6000
	}
	for i := 0; i < ntimed; i++ {
		n := 2 + rng.Intn(6)
		trs := []Transfer{RandTransfer(rng, []uint16{0x0801, 0x0704, 0x0200}[rng.Intn(3)], n, 8)}
		items := []item{pk(trs, 0, 1)}
		for _, o := range rng.Perm(n - 1) {
			items = append(items, pk(trs, 0, o+2))
			if rng.Intn(4) == 0 {
				items = append(items, pk(trs, 0, 2+rng.Intn(n-1)))
			}
			if rng.Intn(6) == 0 {
				items = append(items, item{f: trs[0].Odd([]int{0, n + 1, 65535}[rng.Intn(3)], RandBody(rng, 2)), tr: -1})
			}
			if rng.Intn(5) == 0 {
				hb := FrameSpec{ID: 0x0002, Phone: trs[0].Phone, Ver2019: trs[0].Ver2019, Serial: uint16(rng.Intn(65536))}
				items = append(items, item{f: hb, tr: -1})
			}
		}
		s := scenario{trs, items}
		exp := s.expected()
		var st []Step
		total := 0
		for k, it := range items {
			if k > 0 && rng.Intn(5) < 2 {
				a := []int{5005, 7000, 20000}[rng.Intn(3)]
				if total+a <= 55000 {
					st = append(st, Step{Age: a, IsAge: true})
					total += a
				}
			}
			w := it.f.Wire()
			if rng.Intn(4) == 0 && len(w) > 2 { // the frame split over two reads
				cut := 1 + rng.Intn(len(w)-1)
				st = append(st, Step{Data: w[:cut]}, Step{Data: w[cut:]})
			} else {
				st = append(st, Step{Data: w})
			}
		}
		req := "sp " + StepsString(st)
		obs := RunScript(st)
		c.Case(req, ObsString(obs), total > 0)
		c.Count("timed")
		// all own messages over the whole history, generated re-requests (trailing 0x8003 of a read) removed
		var got []string
		bad := ""
		for _, o := range obs {
			if o.Err != "0" {
				bad = "read reported an error / panic: " + o.String()
			}
			ms := o.Msgs
			for len(ms) > 0 {
				p := strings.Split(ms[len(ms)-1], ",")
				fr := SkDecode(Unhx(p[6]))
				if p[0] == "32771" && p[4] == "0" && fr.OK && fr.Serial == 0 && len(p[5]) >= 6 && p[5][:4] == fmt.Sprintf("%04x", trs[0].Serial0) {
					ms = ms[:len(ms)-1]
					continue
				}
				break
			}
			got = append(got, ms...)
		}
		var want []expMsg
		for _, e := range exp {
			want = append(want, e...)
		}
		if bad == "" && len(got) != len(want) {
			bad = fmt.Sprintf("%d messages delivered by the completePack loop over the history, expected %d", len(got), len(want))
		}
		if bad == "" {
			for j, m := range got {
				p := strings.Split(m, ",")
				w := want[j]
				if w.complete && (p[4] != "1" || p[0] != fmt.Sprint(w.id) || p[5] != w.body) ||
					!w.complete && (p[4] != "0" || p[0] != fmt.Sprint(w.id) || p[1] != fmt.Sprint(w.serial) || p[3] != fmt.Sprint(w.no) || p[6] != w.raw) {
					bad = fmt.Sprintf("message %d of the history is not the expected one: %s", j, m)
					break
				}
			}
		}
		if bad != "" {
			c.Violate(Violation{Signature: "C05/timed", What: "reads spread over time (below 60 s): " + bad, Input: req,
				Observed: Trunc(ObsString(obs), 3000), Required: Trunc(descr(want), 3000)})
		}
	}

	// (6) the same through a real server on loopback
	socketRun(c)
}

func descr(ms []expMsg) string {
	var sb []string
	for _, m := range ms {
		if m.complete {
			sb = append(sb, fmt.Sprintf("complete id=%d body=%s", m.id, m.body))
		} else {
			sb = append(sb, fmt.Sprintf("id=%d serial=%d sum=%d no=%d raw=%s", m.id, m.serial, m.sum, m.no, m.raw))
		}
	}
	return strings.Join(sb, ";")
}

func popcount(x int) int {
	n := 0
	for x != 0 {
		n += x & 1
		x >>= 1
	}
	return n
}

import sys
name=sys.argv[1]
p='service/connection.go'
s=open(p).read()
def rep(old,new,count=1):
    global s
    if old not in s:
        print("PATTERN NOT FOUND:",old[:60]); sys.exit(3)
    s=s.replace(old,new,count)
if name=='selfblock':      # revert 6c53d16: completions go through the writer's own channel
    rep('''				msg.ExtensionFields.PlatformSeq = k
				c.onActiveCompleteEvent(record, msg)
				return true''','''				msg.ExtensionFields.PlatformSeq = k
				c.activeMsgCompleteChan <- msg
				return true''')
    rep('''		replyMsg.ExtensionFields.Err = errors.Join(ErrWriteDataFail, err)
		c.onActiveCompleteEvent(record, replyMsg)''','''		replyMsg.ExtensionFields.Err = errors.Join(ErrWriteDataFail, err)
		c.activeMsgCompleteChan <- replyMsg''')
elif name=='timer-check-then-send':   # revert a9e0f38
    rep('''			select {
			case <-c.stopChan:
			case c.activeMsgCompleteChan <- overtimeMsg:
			}''','''			select {
			case <-c.stopChan:
				return
			default:
			}
			c.activeMsgCompleteChan <- overtimeMsg''')
    rep('''		close(c.activeMsgChan)
''','''		close(c.activeMsgChan)
		close(c.activeMsgCompleteChan)
''')
elif name=='timer-no-stop-select':    # slip: the timer just sends
    rep('''			select {
			case <-c.stopChan:
			case c.activeMsgCompleteChan <- overtimeMsg:
			}''','''			c.activeMsgCompleteChan <- overtimeMsg''')
elif name=='stop-clears':    # revert c13075d
    rep('''			c.onStopEvent(record)
			return''','''			clear(record)
			return''')
elif name=='stop-no-drain':  # slip: outstanding answered, queued forgotten
    rep('''	for {
		select {
		case activeMsg, ok := <-c.activeMsgChan:
			if !ok {
				return
			}
			activeMsg.replyChan <- newErrMessage(err)
		default:
			return
		}
	}''','''	return''')
elif name=='attr-any':       # revert b2f792d: 0x1003 completes whatever comes first
    rep('''			return record[seq].Command == consts.P9003QueryTerminalAudioVideoProperties''','''			return true''')
elif name=='wrong-field':    # slip: match 0x0001 on the terminal's own serial instead of the echoed one
    rep('''			return seq == t0x0001.SerialNumber''','''			return seq == msg.JTMessage.Header.SerialNumber''')
elif name=='delete-before-reply':   # slip: record entry deleted before the reply -> reply to the wrong/absent entry
    rep('''		c.onWriteExecutionEvent(msg)
		v.replyChan <- msg
		delete(record, seq)''','''		delete(record, seq)
		c.onWriteExecutionEvent(msg)
		if w, ok := record[seq]; ok {
			w.replyChan <- msg
		}''')
elif name=='no-delete':      # slip: entry stays in the record after the reply
    rep('''		v.replyChan <- msg
		delete(record, seq)''','''		v.replyChan <- msg''')
elif name=='serial-not-incremented':  # slip: commands reuse the counter without advancing it
    rep('''	header := activeMsg.header
	seq := c.curSeq()''','''	header := activeMsg.header
	seq := c.platformSerialNumber''')
elif name=='close-before-leave':   # slip: channels closed before the registry forgets the connection
    rep('''		c.leaveFunc(c.key)
		c.terminalEvent.OnLeaveEvent(c.key)
		close(c.stopChan)
		_ = c.conn.Close()
		close(c.msgChan)
		close(c.activeMsgChan)''','''		close(c.stopChan)
		_ = c.conn.Close()
		close(c.msgChan)
		close(c.activeMsgChan)
		c.leaveFunc(c.key)
		c.terminalEvent.OnLeaveEvent(c.key)''')
elif name=='reply-skipped-when-outstanding':  # slip: other traffic swallowed while a command is outstanding
    rep('''					if c.onActiveRespondEvent(record, msg) {
						continue
					}''','''					c.onActiveRespondEvent(record, msg)
					continue''')
elif name=='timeout-answers-first':  # slip: timeout completes the oldest entry, not its own
    rep('''func (c *connection) onActiveCompleteEvent(record map[uint16]*ActiveMessage, msg *Message) {
	seq := msg.ExtensionFields.PlatformSeq''','''func (c *connection) onActiveCompleteEvent(record map[uint16]*ActiveMessage, msg *Message) {
	seq := msg.ExtensionFields.PlatformSeq
	if errors.Is(msg.ExtensionFields.Err, ErrWriteDataOverTime) {
		for k := range record {
			seq = k
			break
		}
	}''')
elif name=='cap-act-1':
    rep('''		activeMsgChan:         make(chan *ActiveMessage, 3),''','''		activeMsgChan:         make(chan *ActiveMessage, 1),''')
elif name=='timeout-ignored':
    rep('''		if activeMsg.OverTimeDuration > 0 {
			duration = activeMsg.OverTimeDuration
		}''','''		if activeMsg.OverTimeDuration > time.Hour {
			duration = activeMsg.OverTimeDuration
		}''')
elif name=='stop-no-close-stopchan':
    rep('''		close(c.stopChan)
		_ = c.conn.Close()''','''		_ = c.conn.Close()''')
elif name=='serial-preincrement':
    rep('''func (c *connection) curSeq() uint16 {
	defer func() {
		c.platformSerialNumber++
	}()
	return c.platformSerialNumber
}''','''func (c *connection) curSeq() uint16 {
	c.platformSerialNumber++
	return c.platformSerialNumber
}''')
elif name=='noexist-live':
    p='service/session_manager.go'; s=open(p).read()
    rep('''		if v, ok := record[key]; ok {
			activeMsg.header = v.header''','''		if v, ok := record[key]; ok && activeMsg.Command != 0x8104 {
			activeMsg.header = v.header''')
elif name=='never-written':
    rep('''	_, err := c.conn.Write(data)
	replyMsg := newActiveMessage(seq, activeMsg.Command, data, err)''','''	var err error
	if activeMsg.Command != 0x8801 {
		_, err = c.conn.Write(data)
	}
	replyMsg := newActiveMessage(seq, activeMsg.Command, data, err)''')
elif name=='reissue-dropped':
    rep('''			if ok {
				c.subPackReplyEvent(subPackMsg)
			}''','''			_ = ok
			_ = subPackMsg''')
else:
    print("unknown mutation"); sys.exit(3)
open(p,'w').write(s)

#!/bin/bash
# usage: mut.sh <name> <props> -- <command to run inside the worktree to apply the mutation>
name=$1; props=$2; shift 3
wt=/tmp/wt-conc2
git -C /repo worktree remove --force $wt 2>/dev/null
git -C /repo worktree add -q $wt HEAD || exit 2
( cd $wt && eval "$@" ) || { echo "MUTATION DID NOT APPLY: $name"; git -C /repo worktree remove --force $wt; exit 3; }
( cd $wt && git diff --stat | tail -1 )
( cd $wt/service && GOFLAGS=-mod=mod GOPROXY=off GOSUMDB=off GOTOOLCHAIN=local go build ./... 2>&1 | grep -v conda | head -3 )
for c in $props; do
  echo "--- $name: $c"
  VERIF_REPO=$wt timeout 900 /verif/bin/check $c 2>&1 | grep -E "^(VIOLATION|OK|KNOWN|BROKEN)" | cut -c1-400 | head -8
done
git -C /repo worktree remove --force $wt
